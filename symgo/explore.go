package interp

import (
	"fmt"
	"go/token"
	"go/types"
	"os"
	"runtime"
	"strings"
	"time"

	"golang.org/x/tools/go/ssa"
)

type Report struct {
	Paths, Violations, Aborted int
	Queries                    int
	SolverTime, Wall           time.Duration
	Steps                      int64
	Msgs                       []string
}

type assertFail struct{ msg string }

func intrinsic(name string) externalFn {
	i := strings.LastIndex(name, ".")
	switch name[i+1:] {
	case "svInt":
		return func(fr *frame, args []value) value { return ex.fresh(args[0].(string), 64, true) }
	case "svByte":
		return func(fr *frame, args []value) value { return ex.fresh(args[0].(string), 8, false) }
	case "svBool":
		return func(fr *frame, args []value) value { return ex.fresh(args[0].(string), 0, false) }
	case "svAssume":
		return func(fr *frame, args []value) value {
			switch c := args[0].(type) {
			case bool:
				if !c {
					panic(abortPath{"assume false"})
				}
			case sym:
				ex.assume(c)
				if ex.sol.check() != "sat" {
					panic(abortPath{"assume infeasible"})
				}
			}
			return nil
		}
	case "svAssert":
		return func(fr *frame, args []value) value {
			switch c := args[0].(type) {
			case bool:
				if !c {
					m := ""
					if ex.sol.check() == "sat" {
						m = ex.sol.getValue(strings.Join(ex.inputs(), " "))
					}
					panic(assertFail{args[1].(string) + " model=" + m})
				}
			case sym:
				ex.sol.send("(push)")
				ex.sol.send("(assert (not " + c.t + "))")
				r := ex.sol.check()
				if r == "sat" {
					m := ex.sol.getValue(strings.Join(ex.inputs(), " "))
					ex.sol.send("(pop)")
					panic(assertFail{args[1].(string) + " model=" + m})
				}
				ex.sol.send("(pop)")
				if r != "unsat" {
					panic(abortPath{"solver unknown at assert"})
				}
				ex.assume(c)
			}
			return nil
		}
	}
	return nil
}

func (e *explorer) inputs() []string {
	var r []string
	for _, d := range e.names {
		r = append(r, d)
	}
	if len(r) == 0 {
		r = []string{"true"}
	}
	return r
}

func Explore(mainpkg *ssa.Package, fn *ssa.Function, sizes types.Sizes, maxPaths int) Report {
	t0 := time.Now()
	sol := newSolver()
	e := &explorer{sol: sol}
	ex = e
	e.alts = [][]int{{}}
	var rep Report
	for len(e.alts) > 0 && rep.Paths < maxPaths {
		e.prefix = e.alts[len(e.alts)-1]
		e.alts = e.alts[:len(e.alts)-1]
		e.pos, e.taken, e.pc, e.names = 0, nil, nil, nil
		e.known = map[string]uint64{}
		sol.send("(push)")
		i := &interpreter{
			prog:       mainpkg.Prog,
			globals:    make(map[*ssa.Global]*value),
			sizes:      sizes,
			goroutines: 1,
			initAllow:  map[string]bool{mainpkg.Pkg.Path(): true},
		}
		i.runtimeErrorString = i.prog.ImportedPackage("runtime").Type("errorString").Object().Type()
		initReflect(i)
		func() {
			defer func() {
				switch p := recover().(type) {
				case nil:
				case abortPath:
					rep.Aborted++
					if !strings.HasPrefix(p.why, "assume") {
						rep.Msgs = append(rep.Msgs, "ABORT "+p.why)
					}
				case assertFail:
					rep.Violations++
					rep.Msgs = append(rep.Msgs, "VIOLATION "+p.msg)
				case targetPanic:
					rep.Violations++
					rep.Msgs = append(rep.Msgs, "PANIC "+toString(p.v)+" pc="+strings.Join(e.pc, " & "))
				case runtime.Error:
					if os.Getenv("SYMSTACK") != "" {
						buf := make([]byte, 1<<15)
						fmt.Fprintf(os.Stderr, "%s\n", buf[:runtime.Stack(buf, false)])
					}
					rep.Violations++
					m := "true"
					if sol.check() == "sat" {
						m = sol.getValue(strings.Join(e.inputs(), " "))
					}
					rep.Msgs = append(rep.Msgs, "PANIC(rt) "+p.Error()+" model="+m)
				default:
					fmt.Fprintf(os.Stderr, "interp failure: %v\n", p)
					buf := make([]byte, 1<<14)
					fmt.Fprintf(os.Stderr, "%s\n", buf[:runtime.Stack(buf, false)])
					rep.Msgs = append(rep.Msgs, fmt.Sprintf("INTERNAL %v", p))
					rep.Aborted++
				}
			}()
			call(i, nil, token.NoPos, mainpkg.Func("init"), nil)
			call(i, nil, token.NoPos, fn, nil)
		}()
		rep.Steps += i.steps
		sol.send("(pop)")
		rep.Paths++
	}
	fmt.Fprintf(os.Stderr, "init instrs skipped: %v\n", initSkipped)
	rep.Queries = sol.queries
	rep.SolverTime = sol.dur
	rep.Wall = time.Since(t0)
	sol.bw.Flush()
	sol.in.Close()
	return rep
}
