package interp

import "go/types"

func mustDeref(t types.Type) types.Type {
	if p, ok := t.Underlying().(*types.Pointer); ok {
		return p.Elem()
	}
	panic("mustDeref: not a pointer: " + t.String())
}
