// Copyright 2013 The Go Authors. All rights reserved.
// Use of this source code is governed by a BSD-style
// license that can be found in the LICENSE file.

// Package ssa/interp defines an interpreter for the SSA
// representation of Go programs.
//
// This interpreter is provided as an adjunct for testing the SSA
// construction algorithm.  Its purpose is to provide a minimal
// metacircular implementation of the dynamic semantics of each SSA
// instruction.  It is not, and will never be, a production-quality Go
// interpreter.
//
// The following is a partial list of Go features that are currently
// unsupported or incomplete in the interpreter.
//
// * Unsafe operations, including all uses of unsafe.Pointer, are
// impossible to support given the "boxed" value representation we
// have chosen.
//
// * The reflect package is only partially implemented.
//
// * The "testing" package is no longer supported because it
// depends on low-level details that change too often.
//
// * "sync/atomic" operations are not atomic due to the "boxed" value
// representation: it is not possible to read, modify and write an
// interface value atomically. As a consequence, Mutexes are currently
// broken.
//
// * recover is only partially implemented.  Also, the interpreter
// makes no attempt to distinguish target panics from interpreter
// crashes.
//
// * the sizes of the int, uint and uintptr types in the target
// program are assumed to be the same as those of the interpreter
// itself.
//
// * all values occupy space, even those of types defined by the spec
// to have zero size, e.g. struct{}.  This can cause asymptotic
// performance degradation.
//
// * os.Exit is implemented using panic, causing deferred functions to
// run.
package interp // import "golang.org/x/tools/go/ssa/interp"

import (
	"fmt"
	"strings"
	"go/token"
	"go/types"
	"log"
	"os"
	"reflect"
	"runtime"
	"slices"
	"sync/atomic"
	_ "unsafe"

	"golang.org/x/tools/go/ssa"
)

type continuation int

const (
	kNext continuation = iota
	kReturn
	kJump
)

// Mode is a bitmask of options affecting the interpreter.
type Mode uint

const (
	DisableRecover Mode = 1 << iota // Disable recover() in target programs; show interpreter crash instead.
	EnableTracing                   // Print a trace of all instructions as they are interpreted.
)

type methodSet map[string]*ssa.Function

// State shared between all interpreted goroutines.
type interpreter struct {
	osArgs             []value                // the value of os.Args
	prog               *ssa.Program           // the SSA program
	globals            map[*ssa.Global]*value // addresses of global variables (immutable)
	mode               Mode                   // interpreter options
	reflectPackage     *ssa.Package           // the fake reflect package
	errorMethods       methodSet              // the method set of reflect.error, which implements the error interface.
	rtypeMethods       methodSet              // the method set of rtype, which implements the reflect.Type interface.
	runtimeErrorString types.Type             // the runtime.errorString type
	sizes              types.Sizes            // the effective type-sizing function
	goroutines         int32                  // atomically updated
	steps              int64
}

type deferred struct {
	fn    value
	args  []value
	instr *ssa.Defer
	tail  *deferred
}

type frame struct {
	i                *interpreter
	caller           *frame
	fn               *ssa.Function
	block, prevBlock *ssa.BasicBlock
	env              map[ssa.Value]value // dynamic values of SSA variables
	locals           []value
	defers           *deferred
	result           value
	panicking        bool
	panic            interface{}
	phitemps         []value // temporaries for parallel phi assignment
}

func (fr *frame) get(key ssa.Value) value {
	switch key := key.(type) {
	case nil:
		// Hack; simplifies handling of optional attributes
		// such as ssa.Slice.{Low,High}.
		return nil
	case *ssa.Function, *ssa.Builtin:
		return key
	case *ssa.Const:
		return constValue(key)
	case *ssa.Global:
		if r, ok := fr.i.globals[key]; ok {
			return r
		}
		cell := zero(mustDeref(key.Type()))
		fr.i.globals[key] = &cell
		return &cell
	}
	if r, ok := fr.env[key]; ok {
		return r
	}
	panic(fmt.Sprintf("get: no value for %T: %v", key, key.Name()))
}

// runDefer runs a deferred call d.
// It always returns normally, but may set or clear fr.panic.
func (fr *frame) runDefer(d *deferred) {
	if fr.i.mode&EnableTracing != 0 {
		fmt.Fprintf(os.Stderr, "%s: invoking deferred function call\n",
			fr.i.prog.Fset.Position(d.instr.Pos()))
	}
	var ok bool
	defer func() {
		if !ok {
			// Deferred call created a new state of panic.
			p := classifyPanic(recover())
			if isControl(p) {
				panic(p)
			}
			fr.panicking = true
			fr.panic = p
		}
	}()
	call(fr.i, fr, d.instr.Pos(), d.fn, d.args)
	ok = true
}

// runDefers executes fr's deferred function calls in LIFO order.
//
// On entry, fr.panicking indicates a state of panic; if
// true, fr.panic contains the panic value.
//
// On completion, if a deferred call started a panic, or if no
// deferred call recovered from a previous state of panic, then
// runDefers itself panics after the last deferred call has run.
//
// If there was no initial state of panic, or it was recovered from,
// runDefers returns normally.
func (fr *frame) runDefers() {
	for d := fr.defers; d != nil; d = d.tail {
		fr.runDefer(d)
	}
	fr.defers = nil
	if fr.panicking {
		panic(fr.panic) // new panic, or still panicking
	}
}

// lookupMethod returns the method set for type typ, which may be one
// of the interpreter's fake types.
func lookupMethod(i *interpreter, typ types.Type, meth *types.Func) *ssa.Function {
	switch typ {
	case rtypeType:
		return i.rtypeMethods[meth.Id()]
	case errorType:
		return i.errorMethods[meth.Id()]
	}
	return i.prog.LookupMethod(typ, meth.Pkg(), meth.Name())
}

// visitInstr interprets a single ssa.Instruction within the activation
// record frame.  It returns a continuation value indicating where to
// read the next instruction from.
func visitInstr(fr *frame, instr ssa.Instruction) continuation {
	switch instr := instr.(type) {
	case *ssa.DebugRef:
		// no-op

	case *ssa.UnOp:
		fr.env[instr] = unop(instr, fr.get(instr.X))

	case *ssa.BinOp:
		fr.env[instr] = binop(instr.Op, instr.X.Type(), fr.get(instr.X), fr.get(instr.Y))

	case *ssa.Call:
		fn, args := prepareCall(fr, &instr.Call)
		fr.env[instr] = call(fr.i, fr, instr.Pos(), fn, args)

	case *ssa.ChangeInterface:
		fr.env[instr] = fr.get(instr.X)

	case *ssa.ChangeType:
		fr.env[instr] = fr.get(instr.X) // (can't fail)

	case *ssa.Convert:
		fr.env[instr] = conv(instr.Type(), instr.X.Type(), fr.get(instr.X))

	case *ssa.SliceToArrayPointer:
		fr.env[instr] = sliceToArrayPointer(instr.Type(), instr.X.Type(), fr.get(instr.X))

	case *ssa.MakeInterface:
		fr.env[instr] = iface{t: instr.X.Type(), v: fr.get(instr.X)}

	case *ssa.Extract:
		fr.env[instr] = fr.get(instr.Tuple).(tuple)[instr.Index]

	case *ssa.Slice:
		fr.env[instr] = slice(fr.get(instr.X), fr.get(instr.Low), fr.get(instr.High), fr.get(instr.Max))

	case *ssa.Return:
		switch len(instr.Results) {
		case 0:
		case 1:
			fr.result = fr.get(instr.Results[0])
		default:
			var res []value
			for _, r := range instr.Results {
				res = append(res, fr.get(r))
			}
			fr.result = tuple(res)
		}
		fr.block = nil
		return kReturn

	case *ssa.RunDefers:
		fr.runDefers()

	case *ssa.Panic:
		panic(targetPanic{fr.get(instr.X)})

	case *ssa.Send:
		fr.get(instr.Chan).(chan value) <- fr.get(instr.X)

	case *ssa.Store:
		store(mustDeref(instr.Addr.Type()), fr.get(instr.Addr).(*value), fr.get(instr.Val))

	case *ssa.If:
		succ := 1
		c := fr.get(instr.Cond)
		if sc, ok := c.(sym); ok {
			c = ex.decide(sc)
		}
		if c.(bool) {
			succ = 0
		}
		fr.prevBlock, fr.block = fr.block, fr.block.Succs[succ]
		return kJump

	case *ssa.Jump:
		fr.prevBlock, fr.block = fr.block, fr.block.Succs[0]
		return kJump

	case *ssa.Defer:
		fn, args := prepareCall(fr, &instr.Call)
		defers := &fr.defers
		if into := fr.get(instr.DeferStack); into != nil {
			defers = into.(**deferred)
		}
		*defers = &deferred{
			fn:    fn,
			args:  args,
			instr: instr,
			tail:  *defers,
		}

	case *ssa.Go:
		fn, args := prepareCall(fr, &instr.Call)
		atomic.AddInt32(&fr.i.goroutines, 1)
		go func() {
			call(fr.i, nil, instr.Pos(), fn, args)
			atomic.AddInt32(&fr.i.goroutines, -1)
		}()

	case *ssa.MakeChan:
		fr.env[instr] = make(chan value, asInt64(fr.get(instr.Size)))

	case *ssa.Alloc:
		var addr *value
		if instr.Heap {
			// new
			addr = new(value)
			fr.env[instr] = addr
		} else {
			// local
			addr = fr.env[instr].(*value)
		}
		*addr = zero(mustDeref(instr.Type()))

	case *ssa.MakeSlice:
		slice := make([]value, asInt64(fr.get(instr.Cap)))
		tElt := instr.Type().Underlying().(*types.Slice).Elem()
		for i := range slice {
			slice[i] = zero(tElt)
		}
		fr.env[instr] = slice[:asInt64(fr.get(instr.Len))]

	case *ssa.MakeMap:
		var reserve int64
		if instr.Reserve != nil {
			reserve = asInt64(fr.get(instr.Reserve))
		}
		if !fitsInt(reserve, fr.i.sizes) {
			panic(fmt.Sprintf("ssa.MakeMap.Reserve value %d does not fit in int", reserve))
		}
		mm := makeMap(instr.Type().Underlying().(*types.Map).Key(), reserve).(*omap)
		mm.typ = instr.Type().String()
		fr.env[instr] = mm

	case *ssa.Range:
		fr.env[instr] = rangeIter(fr.get(instr.X), instr.X.Type())

	case *ssa.Next:
		fr.env[instr] = fr.get(instr.Iter).(iter).next()

	case *ssa.FieldAddr:
		base := fr.get(instr.X).(*value)
		if w, ok := ex.ghost["watch"].(map[*value]bool); ok && w[base] {
			if nm, wr, skip := fieldAccessInfo(instr); !skip {
				ex.logAccess(base, nm, wr)
			}
		}
		fr.env[instr] = &(*base).(structure)[instr.Field]

	case *ssa.Field:
		fr.env[instr] = fr.get(instr.X).(structure)[instr.Field]

	case *ssa.IndexAddr:
		x := fr.get(instr.X)
		idx := fr.get(instr.Index)
		if si, ok := idx.(sym); ok {
			if _, known := ex.known[si.t]; !known && onlyLoaded(instr) {
				// element address with a symbolic index that is only loaded from:
				// keep it symbolic, the load becomes an ite chain over the cells
				var cells []value
				switch x := x.(type) {
				case []value:
					cells = x
				case *value:
					cells = (*x).(array)
				}
				if scalarCells(cells) {
					fr.env[instr] = symAddr{cells: cells, idx: si}
					break
				}
			}
		}
		switch x := x.(type) {
		case []value:
			fr.env[instr] = &x[asInt64(idx)]
		case *value: // *array
			fr.env[instr] = &(*x).(array)[asInt64(idx)]
		default:
			panic(fmt.Sprintf("unexpected x type in IndexAddr: %T", x))
		}

	case *ssa.Index:
		x := fr.get(instr.X)
		idx := fr.get(instr.Index)

		if si, ok := idx.(sym); ok {
			if cells, ok := strCells(x); ok {
				fr.env[instr] = selectCell(cells, si)
				break
			}
		}
		switch x := x.(type) {
		case array:
			if si, ok := idx.(sym); ok && scalarCells(x) {
				fr.env[instr] = selectCell(x, si)
				break
			}
			fr.env[instr] = x[asInt64(idx)]
		case symstr:
			fr.env[instr] = x[asInt64(idx)]
		case string:
			fr.env[instr] = x[asInt64(idx)]
		default:
			panic(fmt.Sprintf("unexpected x type in Index: %T", x))
		}

	case *ssa.Lookup:
		fr.env[instr] = lookup(instr, fr.get(instr.X), fr.get(instr.Index))

	case *ssa.MapUpdate:
		m := fr.get(instr.Map)
		key := fr.get(instr.Key)
		v := fr.get(instr.Value)
		switch m := m.(type) {
		case *omap:
			m.insert(key, v)
		default:
			panic(fmt.Sprintf("illegal map type: %T", m))
		}

	case *ssa.TypeAssert:
		fr.env[instr] = typeAssert(fr.i, instr, fr.get(instr.X).(iface))

	case *ssa.MakeClosure:
		var bindings []value
		for _, binding := range instr.Bindings {
			bindings = append(bindings, fr.get(binding))
		}
		fr.env[instr] = &closure{instr.Fn.(*ssa.Function), bindings}

	case *ssa.Phi:
		log.Fatal("unreachable") // phis are processed at block entry

	case *ssa.Select:
		var cases []reflect.SelectCase
		if !instr.Blocking {
			cases = append(cases, reflect.SelectCase{
				Dir: reflect.SelectDefault,
			})
		}
		for _, state := range instr.States {
			var dir reflect.SelectDir
			if state.Dir == types.RecvOnly {
				dir = reflect.SelectRecv
			} else {
				dir = reflect.SelectSend
			}
			var send reflect.Value
			if state.Send != nil {
				send = reflect.ValueOf(fr.get(state.Send))
			}
			cases = append(cases, reflect.SelectCase{
				Dir:  dir,
				Chan: reflect.ValueOf(fr.get(state.Chan)),
				Send: send,
			})
		}
		chosen, recv, recvOk := reflect.Select(cases)
		if !instr.Blocking {
			chosen-- // default case should have index -1.
		}
		r := tuple{chosen, recvOk}
		for i, st := range instr.States {
			if st.Dir == types.RecvOnly {
				var v value
				if i == chosen && recvOk {
					// No need to copy since send makes an unaliased copy.
					v = recv.Interface().(value)
				} else {
					v = zero(st.Chan.Type().Underlying().(*types.Chan).Elem())
				}
				r = append(r, v)
			}
		}
		fr.env[instr] = r

	default:
		panic(fmt.Sprintf("unexpected instruction: %T", instr))
	}

	// if val, ok := instr.(ssa.Value); ok {
	// 	fmt.Println(toString(fr.env[val])) // debugging
	// }

	return kNext
}

// prepareCall determines the function value and argument values for a
// function call in a Call, Go or Defer instruction, performing
// interface method lookup if needed.
func prepareCall(fr *frame, call *ssa.CallCommon) (fn value, args []value) {
	v := fr.get(call.Value)
	if call.Method == nil {
		// Function call.
		fn = v
	} else {
		// Interface method invocation.
		recv := v.(iface)
		if recv.t == nil {
			panic("method invoked on nil interface")
		}
		if f := lookupMethod(fr.i, recv.t, call.Method); f == nil {
			// Unreachable in well-typed programs.
			panic(fmt.Sprintf("method set for dynamic type %v does not contain %s", recv.t, call.Method))
		} else {
			fn = f
		}
		args = append(args, recv.v)
	}
	for _, arg := range call.Args {
		args = append(args, fr.get(arg))
	}
	return
}

// call interprets a call to a function (function, builtin or closure)
// fn with arguments args, returning its result.
// callpos is the position of the callsite.
func call(i *interpreter, caller *frame, callpos token.Pos, fn value, args []value) value {
	switch fn := fn.(type) {
	case *ssa.Function:
		if fn == nil {
			panic("call of nil function") // nil of func type
		}
		return callSSA(i, caller, callpos, fn, args, nil)
	case *closure:
		return callSSA(i, caller, callpos, fn.Fn, args, fn.Env)
	case *ssa.Builtin:
		return callBuiltin(caller, callpos, fn, args)
	}
	panic(fmt.Sprintf("cannot call %T", fn))
}

func loc(fset *token.FileSet, pos token.Pos) string {
	if pos == token.NoPos {
		return ""
	}
	return " at " + fset.Position(pos).String()
}

// callSSA interprets a call to function fn with arguments args,
// and lexical environment env, returning its result.
// callpos is the position of the callsite.
func callSSA(i *interpreter, caller *frame, callpos token.Pos, fn *ssa.Function, args []value, env []value) value {
	if i.mode&EnableTracing != 0 {
		fset := fn.Prog.Fset
		// TODO(adonovan): fix: loc() lies for external functions.
		fmt.Fprintf(os.Stderr, "Entering %s%s.\n", fn, loc(fset, fn.Pos()))
		suffix := ""
		if caller != nil {
			suffix = ", resuming " + caller.fn.String() + loc(fset, callpos)
		}
		defer fmt.Fprintf(os.Stderr, "Leaving %s%s.\n", fn, suffix)
	}
	fr := &frame{
		i:      i,
		caller: caller, // for panic/recover
		fn:     fn,
	}
	if fn.Synthetic == "package initializer" && initDeny(fn.Pkg.Pkg.Path()) {
		return nil
	}
	if symTrace {
		fmt.Fprintf(os.Stderr, "CALL %s\n", fn)
	}
	if fn.Parent() == nil {
		info := fnInfo(fn)
		if info.ext != nil {
			if info.stub && !ex.seenStubs[info.name] {
				ex.seenStubs[info.name] = true
				ex.newStubs = append(ex.newStubs, info.name)
			}
			return info.ext(fr, args)
		}
		if info.target && !ex.seenFuncs[info.name] {
			ex.seenFuncs[info.name] = true
			ex.newFuncs = append(ex.newFuncs, info.name)
		}
		name := info.name
		if fn.Blocks == nil && fn.Pkg != nil {
			fn.Pkg.Build()
		}
		if fn.Blocks == nil {
			panic("no code for function: " + name)
		}
	}

	// generic function body?
	if fn.TypeParams().Len() > 0 && len(fn.TypeArgs()) == 0 {
		panic("interp requires ssa.BuilderMode to include InstantiateGenerics to execute generics")
	}

	fr.env = make(map[ssa.Value]value)
	fr.block = fn.Blocks[0]
	fr.locals = make([]value, len(fn.Locals))
	for i, l := range fn.Locals {
		fr.locals[i] = zero(mustDeref(l.Type()))
		fr.env[l] = &fr.locals[i]
	}
	for i, p := range fn.Params {
		fr.env[p] = args[i]
	}
	for i, fv := range fn.FreeVars {
		fr.env[fv] = env[i]
	}
	for fr.block != nil {
		runFrame(fr)
	}
	// Destroy the locals to avoid accidental use after return.
	for i := range fn.Locals {
		fr.locals[i] = bad{}
	}
	return fr.result
}

// runFrame executes SSA instructions starting at fr.block and
// continuing until a return, a panic, or a recovered panic.
//
// After a panic, runFrame panics.
//
// After a normal return, fr.result contains the result of the call
// and fr.block is nil.
//
// A recovered panic in a function without named return parameters
// (NRPs) becomes a normal return of the zero value of the function's
// result type.
//
// After a recovered panic in a function with NRPs, fr.result is
// undefined and fr.block contains the block at which to resume
// control.
func runFrame(fr *frame) {
	defer func() {
		if fr.block == nil {
			return // normal return
		}
		if fr.i.mode&DisableRecover != 0 {
			return // let interpreter crash
		}
		p := classifyPanic(recover())
		if ap, ok := p.(abortPath); ok && strings.HasPrefix(ap.why, "engine:") && !strings.Contains(ap.why, " target: ") {
			ap.why += " target: " + targetStack(fr)
			p = ap
		}
		if isControl(p) {
			panic(p)
		}
		fr.panicking = true
		fr.panic = p
		if fr.i.mode&EnableTracing != 0 {
			fmt.Fprintf(os.Stderr, "Panicking: %T %v.\n", fr.panic, fr.panic)
		}
		fr.runDefers()
		fr.block = fr.fn.Recover
	}()

	for {
		if fr.i.mode&EnableTracing != 0 {
			fmt.Fprintf(os.Stderr, ".%s:\n", fr.block)
		}

		nonPhis := executePhis(fr)
		for _, instr := range nonPhis {
			if fr.i.mode&EnableTracing != 0 {
				if v, ok := instr.(ssa.Value); ok {
					fmt.Fprintln(os.Stderr, "\t", v.Name(), "=", instr)
				} else {
					fmt.Fprintln(os.Stderr, "\t", instr)
				}
			}
			if fr.fn.Synthetic == "package initializer" {
				if tolerantVisit(fr, instr) == kReturn {
					return
				}
				continue
			}
			fr.i.steps++
			if fr.i.steps > ex.maxSteps {
				panic(abortPath{"instruction budget exceeded (termination check)"})
			}
			if visitInstr(fr, instr) == kReturn {
				return
			}
			// Inv: kNext (continue) or kJump (last instr)
		}
	}
}

// executePhis executes the phi-nodes at the start of the current
// block and returns the non-phi instructions.
func executePhis(fr *frame) []ssa.Instruction {
	firstNonPhi := -1
	for i, instr := range fr.block.Instrs {
		if _, ok := instr.(*ssa.Phi); !ok {
			firstNonPhi = i
			break
		}
	}
	// Inv: 0 <= firstNonPhi; every block contains a non-phi.

	nonPhis := fr.block.Instrs[firstNonPhi:]
	if firstNonPhi > 0 {
		phis := fr.block.Instrs[:firstNonPhi]
		// Execute parallel assignment of phis.
		//
		// See "the swap problem" in Briggs et al's "Practical Improvements
		// to the Construction and Destruction of SSA Form" for discussion.
		predIndex := slices.Index(fr.block.Preds, fr.prevBlock)
		fr.phitemps = fr.phitemps[:0]
		for _, phi := range phis {
			phi := phi.(*ssa.Phi)
			if fr.i.mode&EnableTracing != 0 {
				fmt.Fprintln(os.Stderr, "\t", phi.Name(), "=", phi)
			}
			fr.phitemps = append(fr.phitemps, fr.get(phi.Edges[predIndex]))
		}
		for i, phi := range phis {
			fr.env[phi.(*ssa.Phi)] = fr.phitemps[i]
		}
	}
	return nonPhis
}

// doRecover implements the recover() built-in.
func doRecover(caller *frame) value {
	// recover() must be exactly one level beneath the deferred
	// function (two levels beneath the panicking function) to
	// have any effect.  Thus we ignore both "defer recover()" and
	// "defer f() -> g() -> recover()".
	if caller.i.mode&DisableRecover == 0 &&
		caller != nil && !caller.panicking &&
		caller.caller != nil && caller.caller.panicking {
		caller.caller.panicking = false
		p := caller.caller.panic
		caller.caller.panic = nil

		// TODO(adonovan): support runtime.Goexit.
		switch p := p.(type) {
		case targetPanic:
			// The target program explicitly called panic().
			return p.v
		case runtime.Error:
			// The interpreter encountered a runtime error. runtime.errorString's
			// Error method adds the "runtime error: " prefix itself.
			return iface{caller.i.runtimeErrorString, strings.TrimPrefix(p.Error(), "runtime error: ")}
		case string:
			// The interpreter explicitly called panic().
			return iface{caller.i.runtimeErrorString, p}
		default:
			panic(fmt.Sprintf("unexpected panic type %T in target call to recover()", p))
		}
	}
	return iface{}
}

// Interpret interprets the Go program whose main package is mainpkg.
// mode specifies various interpreter options.  filename and args are
// the initial values of os.Args for the target program.  sizes is the
// effective type-sizing function for this program.
//
// Interpret returns the exit code of the program: 2 for panic (like
// gc does), or the argument to os.Exit for normal termination.
//
// The SSA program must include the "runtime" package.
//
// Type parameterized functions must have been built with
// InstantiateGenerics in the ssa.BuilderMode to be interpreted.
func Interpret(mainpkg *ssa.Package, mode Mode, sizes types.Sizes, filename string, args []string) (exitCode int) {
	i := &interpreter{
		prog:       mainpkg.Prog,
		globals:    make(map[*ssa.Global]*value),
		mode:       mode,
		sizes:      sizes,
		goroutines: 1,
	}
	runtimePkg := i.prog.ImportedPackage("runtime")
	if runtimePkg == nil {
		panic("ssa.Program doesn't include runtime package")
	}
	i.runtimeErrorString = runtimePkg.Type("errorString").Object().Type()

	initReflect(i)

	i.osArgs = append(i.osArgs, filename)
	for _, arg := range args {
		i.osArgs = append(i.osArgs, arg)
	}

	for _, pkg := range i.prog.AllPackages() {
		// Initialize global storage.
		for _, m := range pkg.Members {
			switch v := m.(type) {
			case *ssa.Global:
				cell := zero(mustDeref(v.Type()))
				i.globals[v] = &cell
			}
		}
	}

	// Top-level error handler.
	exitCode = 2
	defer func() {
		if exitCode != 2 || i.mode&DisableRecover != 0 {
			return
		}
		switch p := recover().(type) {
		case exitPanic:
			exitCode = int(p)
			return
		case targetPanic:
			fmt.Fprintln(os.Stderr, "panic:", toString(p.v))
		case runtime.Error:
			fmt.Fprintln(os.Stderr, "panic:", p.Error())
		case string:
			fmt.Fprintln(os.Stderr, "panic:", p)
		default:
			fmt.Fprintf(os.Stderr, "panic: unexpected type: %T: %v\n", p, p)
		}

		// TODO(adonovan): dump panicking interpreter goroutine?
		// buf := make([]byte, 0x10000)
		// runtime.Stack(buf, false)
		// fmt.Fprintln(os.Stderr, string(buf))
		// (Or dump panicking target goroutine?)
	}()

	// Run!
	call(i, nil, token.NoPos, mainpkg.Func("init"), nil)
	if mainFn := mainpkg.Func("main"); mainFn != nil {
		call(i, nil, token.NoPos, mainFn, nil)
		exitCode = 0
	} else {
		fmt.Fprintln(os.Stderr, "No main function.")
		exitCode = 1
	}
	return
}

var initSkipped = map[string]int{}

func initDeny(path string) bool {
	for _, p := range []string{"runtime", "os", "syscall", "net", "reflect", "sync", "internal/", "crypto", "unsafe", "log", "context", "math/rand", "vendor/", "encoding/json", "html", "text/template", "embed", "io/fs", "path/filepath", "os/exec", "net/", "math/big", "hash", "compress", "golang.org/x/", "encoding/asn1", "encoding/pem", "encoding/hex", "database", "go/", "iter", "weak", "unique", "maps", "slices", "cmp"} {
		if path == p || strings.HasPrefix(path, p) {
			if path == "net/textproto" || path == "net/mail" || path == "internal/bytealg" {
				return false
			}
			return true
		}
	}
	return false
}

func tolerantVisit(fr *frame, instr ssa.Instruction) (k continuation) {
	defer func() {
		if p := recover(); p != nil {
			switch p.(type) {
			case abortPath, prunePath, stopPath:
				panic(p)
			}
			initSkipped[fr.fn.Pkg.Pkg.Path()]++
			if v, ok := instr.(ssa.Value); ok {
				fr.env[v] = bad{}
			}
			k = kNext
		}
	}()
	return visitInstr(fr, instr)
}

var symTrace = os.Getenv("SYMTRACE") != ""

type fnInfoT struct {
	name   string
	ext    externalFn
	stub   bool
	target bool
}

var fnInfoCache = map[*ssa.Function]*fnInfoT{}

func fnInfo(fn *ssa.Function) *fnInfoT {
	if r, ok := fnInfoCache[fn]; ok {
		return r
	}
	name := fn.String()
	r := &fnInfoT{name: name}
	if h := overrides[name]; h != nil {
		r.ext = func(fr *frame, args []value) value { return callSSA(fr.i, fr.caller, token.NoPos, h, args, nil) }
		r.stub = true
		r.name = name + " => " + h.Name()
	} else if ext := intrinsic(name); ext != nil {
		r.ext = ext
	} else if ext := externals[name]; ext != nil {
		r.ext = ext
		r.stub = true
	}
	if fn.Pkg != nil && strings.HasPrefix(fn.Pkg.Pkg.Path(), "github.com/wneessen/go-mail") {
		b := fn.Name()
		if !strings.HasPrefix(b, "sv") && !strings.HasPrefix(b, "Harness") && !strings.HasPrefix(b, "hx") && fn.Synthetic == "" {
			if f := fn.Prog.Fset.File(fn.Pos()); f == nil || !strings.Contains(f.Name(), "zz_verif") {
				r.target = true
			}
		}
	}
	fnInfoCache[fn] = r
	return r
}

// classifyPanic separates panics that the target program could observe
// (explicit panic(), Go run-time errors that the interpreter reproduces
// natively) from failures of the engine itself, which make the path
// inconclusive and must never be seen by a recover() in the target.
func classifyPanic(p interface{}) interface{} {
	switch x := p.(type) {
	case nil, targetPanic, abortPath, prunePath, stopPath, exitPanic:
		return p
	case *runtime.TypeAssertionError:
		return abortPath{"engine: " + x.Error() + "\n" + originStack()}
	case runtime.Error:
		return p
	case string:
		for _, pre := range []string{"interface conversion:", "method invoked on nil interface", "call of nil function", "runtime error:", "negative shift amount", "array length is greater than slice length"} {
			if strings.HasPrefix(x, pre) {
				return p
			}
		}
		return abortPath{"engine: " + x + "\n" + originStack()}
	default:
		return abortPath{fmt.Sprintf("engine: unexpected panic %T %v", p, p)}
	}
}

// overrides maps an SSA function name to a harness function of the same
// signature (receiver first) that is interpreted in its place: the
// environment models live next to the harness, as ordinary Go.
var overrides = map[string]*ssa.Function{}

func RegisterOverride(target string, h *ssa.Function) { overrides[target] = h }

// originStack returns the frames below the panic() frame, i.e. where the
// failure originated, as a compact single line.
func originStack() string {
	buf := make([]byte, 1<<16)
	st := string(buf[:runtime.Stack(buf, false)])
	if i := strings.Index(st, "panic("); i >= 0 {
		st = st[i:]
	}
	lines := strings.Split(st, "\n")
	var out []string
	for i := 2; i < len(lines) && len(out) < 8; i += 2 {
		fn := lines[i]
		if j := strings.Index(fn, "("); j > 0 {
			fn = fn[:j]
		}
		loc := ""
		if i+1 < len(lines) {
			loc = strings.TrimSpace(lines[i+1])
			if j := strings.Index(loc, " +0x"); j > 0 {
				loc = loc[:j]
			}
			if j := strings.LastIndex(loc, "/"); j >= 0 {
				loc = loc[j+1:]
			}
		}
		out = append(out, fn+"@"+loc)
	}
	return strings.Join(out, " < ")
}

type fieldAccT struct {
	name  string
	write bool
	skip  bool
}

var fieldAccCache = map[*ssa.FieldAddr]fieldAccT{}

// fieldAccessInfo classifies a FieldAddr: the field's qualified name, whether
// the address is stored through (a write), and whether it is a synchronisation
// object itself (skipped).
func fieldAccessInfo(instr *ssa.FieldAddr) (string, bool, bool) {
	if r, ok := fieldAccCache[instr]; ok {
		return r.name, r.write, r.skip
	}
	st := mustDeref(instr.X.Type()).Underlying().(*types.Struct)
	f := st.Field(instr.Field)
	r := fieldAccT{name: mustDeref(instr.X.Type()).String() + "." + f.Name()}
	ft := f.Type().String()
	if strings.HasPrefix(ft, "sync.") {
		r.skip = true
	}
	if refs := instr.Referrers(); refs != nil {
		for _, u := range *refs {
			if st, ok := u.(*ssa.Store); ok && st.Addr == instr {
				r.write = true
			}
		}
	}
	fieldAccCache[instr] = r
	return r.name, r.write, r.skip
}

// targetStack names the interpreted functions on the call stack (innermost first).
func targetStack(fr *frame) string {
	var out []string
	for f := fr; f != nil && len(out) < 10; f = f.caller {
		out = append(out, f.fn.String())
	}
	return strings.Join(out, " < ")
}
