package interp

// Solver pipe, path explorer (decision-prefix re-execution) and the per-path
// runner used by worker processes.

import (
	"bufio"
	"fmt"
	"go/token"
	"go/types"
	"io"
	"os"
	"os/exec"
	"runtime"
	"sort"
	"strconv"
	"strings"
	"time"

	"golang.org/x/tools/go/ssa"
)

// ---------------------------------------------------------------- solver

type solver struct {
	cmd       *exec.Cmd
	in        io.WriteCloser
	bw        *bufio.Writer
	out       *bufio.Reader
	queries   int
	nsat      int
	nunsat    int
	nunknown  int
	dur       time.Duration
	timeoutMS int
	log       io.Writer
	script    []string // everything sent since the last reset
	keep      bool
	bin       string
	fallback  string // non-empty: the last check-sat was answered by a one-shot run of this script
	nfallback int
}

func newSolver(timeoutMS int, bin string) *solver {
	if bin == "" {
		bin = os.Getenv("SYMGO_SOLVER")
	}
	if bin == "" {
		bin = "z3"
	}
	cmd := exec.Command(bin, "-in")
	in, _ := cmd.StdinPipe()
	outp, _ := cmd.StdoutPipe()
	cmd.Stderr = os.Stderr
	if err := cmd.Start(); err != nil {
		panic(err)
	}
	s := &solver{cmd: cmd, in: in, out: bufio.NewReader(outp), timeoutMS: timeoutMS, bin: bin, keep: true}
	s.bw = bufio.NewWriterSize(in, 1<<16)
	if p := os.Getenv("SYMGO_SMTLOG"); p != "" {
		f, _ := os.Create(fmt.Sprintf("%s.%d", p, os.Getpid()))
		s.log = f
	}
	s.reset()
	return s
}

func (s *solver) reset() {
	s.script = s.script[:0]
	s.raw("(reset)")
	s.raw("(set-option :produce-models true)")
	s.raw(fmt.Sprintf("(set-option :timeout %d)", s.timeoutMS))
}

func (s *solver) raw(l string) {
	if s.log != nil {
		fmt.Fprintln(s.log, l)
	}
	s.bw.WriteString(l)
	s.bw.WriteByte('\n')
}

func (s *solver) send(l string) {
	if s.keep {
		s.script = append(s.script, l)
	}
	s.raw(l)
}

func (s *solver) close() {
	s.bw.Flush()
	s.in.Close()
	s.cmd.Wait()
}

func (s *solver) check() string {
	t0 := time.Now()
	s.send("(check-sat)")
	s.bw.Flush()
	line, err := s.out.ReadString('\n')
	if err != nil {
		panic(abortPath{"solver died: " + err.Error()})
	}
	s.queries++
	line = strings.TrimSpace(line)
	s.fallback = ""
	if line == "unknown" || line == "timeout" {
		// the incremental (push/pop) mode of the solver is much weaker than a
		// one-shot run with full preprocessing: retry the same query one-shot
		if r, script := s.oneShot(false, nil); r == "sat" || r == "unsat" {
			line = r
			s.fallback = script
			s.nfallback++
		}
	}
	s.dur += time.Since(t0)
	switch line {
	case "sat":
		s.nsat++
	case "unsat":
		s.nunsat++
	case "unknown", "timeout":
		s.nunknown++
		line = "unknown"
	default:
		// any (error ...) line makes the run inconclusive
		panic(abortPath{"solver error: " + line})
	}
	return line
}

// flatScript resolves the push/pop structure of everything sent since the
// last reset into one assertion stack.
func (s *solver) flatScript() string {
	var out []string
	var marks []int
	for _, l := range s.script {
		switch strings.TrimSpace(l) {
		case "(push)":
			marks = append(marks, len(out))
			continue
		case "(pop)":
			if len(marks) > 0 {
				out = out[:marks[len(marks)-1]]
				marks = marks[:len(marks)-1]
			}
			continue
		case "(check-sat)":
			continue
		}
		out = append(out, l)
	}
	return "(set-option :produce-models true)\n" + strings.Join(out, "\n") + "\n"
}

var oneShotSeq int

// oneShot runs the current assertion stack in a fresh solver process.
func (s *solver) oneShot(withValues bool, terms []string) (string, string) {
	script := s.flatScript()
	body := script + "(check-sat)\n"
	if withValues {
		body += "(get-value (" + strings.Join(terms, " ") + "))\n"
	}
	oneShotSeq++
	p := fmt.Sprintf("%s/symgo-oneshot-%d-%d.smt2", os.TempDir(), os.Getpid(), oneShotSeq)
	if err := os.WriteFile(p, []byte(body), 0o600); err != nil {
		return "unknown", ""
	}
	defer os.Remove(p)
	bin := s.bin
	to := s.timeoutMS/1000 + 1
	if to < 30 {
		to = 30
	}
	out, _ := exec.Command(bin, fmt.Sprintf("-T:%d", to), p).CombinedOutput()
	res := strings.TrimSpace(string(out))
	if strings.Contains(res, "(error") {
		return "unknown", ""
	}
	first := res
	if i := strings.IndexByte(res, '\n'); i >= 0 {
		first = strings.TrimSpace(res[:i])
		if withValues {
			return first, res[i+1:]
		}
	}
	return first, script
}

// getValue returns the raw s-expression answer of (get-value (terms...)).
func (s *solver) getValue(terms []string) string {
	if s.fallback != "" {
		r, vals := s.oneShot(true, terms)
		if r != "sat" {
			panic(abortPath{"solver: model extraction failed in one-shot fallback"})
		}
		return vals
	}
	s.raw("(get-value (" + strings.Join(terms, " ") + "))")
	s.bw.Flush()
	depth := 0
	var sb strings.Builder
	inbar := false
	for {
		r, _, err := s.out.ReadRune()
		if err != nil {
			panic(abortPath{"solver died in get-value"})
		}
		sb.WriteRune(r)
		if r == '|' {
			inbar = !inbar
		}
		if inbar {
			continue
		}
		if r == '(' {
			depth++
		} else if r == ')' {
			depth--
			if depth == 0 {
				break
			}
		}
	}
	s.out.ReadString('\n')
	res := sb.String()
	if strings.HasPrefix(strings.TrimSpace(res), "(error") {
		panic(abortPath{"solver error: " + res})
	}
	return res
}

// parseBV extracts the first bit-vector / bool literal following position i.
func parseLit(r string) (uint64, bool) {
	if i := strings.LastIndex(r, "#x"); i >= 0 {
		j := i + 2
		for j < len(r) && strings.IndexByte("0123456789abcdefABCDEF", r[j]) >= 0 {
			j++
		}
		v, err := strconv.ParseUint(r[i+2:j], 16, 64)
		return v, err == nil
	}
	if i := strings.LastIndex(r, "#b"); i >= 0 {
		j := i + 2
		for j < len(r) && (r[j] == '0' || r[j] == '1') {
			j++
		}
		v, err := strconv.ParseUint(r[i+2:j], 2, 64)
		return v, err == nil
	}
	if strings.Contains(r, " true)") {
		return 1, true
	}
	if strings.Contains(r, " false)") {
		return 0, true
	}
	return 0, false
}

// ---------------------------------------------------------------- exploration

type abortPath struct{ why string }   // path cannot be completed (inconclusive)
type prunePath struct{ why string }   // path is outside the claim (assumption false / infeasible)
type stopPath struct{}                // harness asked to end the path normally

func isControl(p interface{}) bool {
	switch p.(type) {
	case abortPath, prunePath, stopPath:
		return true
	}
	return false
}

// Dec is one recorded decision of a path.
type Dec struct {
	K int    `json:"k"` // 0 branch, 1 concretised value, 2 structural choice
	V uint64 `json:"v"`
}

type Violation struct {
	Label string            `json:"label"`
	Kind  string            `json:"kind"` // assert | panic
	Msg   string            `json:"msg,omitempty"`
	Model map[string]uint64 `json:"model"`
	NPC   int               `json:"npc"`
	// structural choices only (svPick / map order): an engine-side confirmation
	// fixes these and leaves the data inputs symbolic
	Choices map[string]uint64 `json:"choices,omitempty"`
}

type Sample struct {
	Model map[string]uint64 `json:"model"`
	PC    []string          `json:"pc"`
}

type Job struct {
	ID        int               `json:"id"`
	Fn        string            `json:"fn"`
	Params    map[string]int    `json:"params,omitempty"`
	Overrides map[string]string `json:"overrides,omitempty"`
	TimeoutMS int               `json:"timeout_ms,omitempty"`
	MaxSteps  int64             `json:"max_steps,omitempty"`
	HangViol  bool              `json:"hang_viol,omitempty"` // exceeding the instruction budget is a violation candidate (termination is part of the property)
	XCheck    bool              `json:"xcheck,omitempty"`
	Solver    string            `json:"solver,omitempty"`
	Fixed     map[string]uint64 `json:"fixed,omitempty"` // inputs forced to concrete values (debugging / translator validation)
	Prefix    []Dec             `json:"prefix"`
	Sample    bool              `json:"sample,omitempty"`
	Quit      bool              `json:"quit,omitempty"`
}

type PathResult struct {
	ID         int         `json:"id"`
	Outcome    string      `json:"outcome"` // ok | pruned | abort
	Why        string      `json:"why,omitempty"`
	Alts       [][]Dec     `json:"alts,omitempty"`
	Violations []Violation `json:"violations,omitempty"`
	Reach      []string    `json:"reach,omitempty"`
	Queries    int         `json:"q"`
	Sat        int         `json:"sat"`
	Unsat      int         `json:"unsat"`
	Unknown    int         `json:"unknown"`
	SolverNS   int64       `json:"solver_ns"`
	WallNS     int64       `json:"wall_ns"`
	Steps      int64       `json:"steps"`
	Decisions  int         `json:"decisions"`
	Funcs      []string    `json:"funcs,omitempty"`
	Stubs      []string    `json:"stubs,omitempty"`
	Sample     *Sample     `json:"sample,omitempty"`
	Notes      []string    `json:"notes,omitempty"`
	Asserts    int         `json:"asserts"`
	Scripts    []string    `json:"scripts,omitempty"`
}

type explorer struct {
	sol    *solver
	prefix []Dec
	pos    int
	taken  []Dec
	alts   [][]Dec
	pc     []string
	known  map[string]uint64

	nvars    int
	ndefs    int
	inputs   []string          // declared input constants, in order
	inames   map[string]int    // per-name occurrence counter
	choices  map[string]uint64 // structural choices, by input name
	defs     map[string]string // named term -> body
	depMemo  map[string]bool
	secrets  map[string]bool
	newDecs  int
	asserts  int
	reach    map[string]bool
	viols    []Violation
	notes    []string
	scripts  []string
	params   map[string]int
	fixed    map[string]uint64
	nondetMap bool
	nondetMapMax int
	nondetMapType string
	selOrigin map[string]selOrig
	ufApps    map[string]string
	xcheck   bool

	// worker-lifetime
	seenFuncs map[string]bool
	newFuncs  []string
	seenStubs map[string]bool
	newStubs  []string
	modPrefix string
	maxSteps  int64
	hangViol  bool
	pools     map[*value][]value // sync.Pool contents (stubs.go)
	maxConc   int

	// ghost state (reset per path)
	locks   map[*value]*lockState
	ghost   map[string]value
}

type lockState struct {
	writer  bool
	readers int
}

var ex *explorer

func (e *explorer) resetPath(prefix []Dec) {
	e.prefix = prefix
	e.pos = 0
	e.taken = e.taken[:0]
	e.alts = nil
	e.pc = nil
	e.known = map[string]uint64{}
	e.nvars, e.ndefs = 0, 0
	e.inputs = nil
	e.inames = map[string]int{}
	e.choices = map[string]uint64{}
	e.defs = map[string]string{}
	e.depMemo = map[string]bool{}
	e.secrets = map[string]bool{}
	e.newDecs, e.asserts = 0, 0
	e.reach = map[string]bool{}
	e.viols = nil
	e.notes = nil
	e.scripts = nil
	e.nondetMap = false
	e.nondetMapType = ""
	e.selOrigin = map[string]selOrig{}
	e.ufApps = map[string]string{}
	e.newFuncs, e.newStubs = nil, nil
	e.locks = map[*value]*lockState{}
	e.ghost = map[string]value{}
	e.pools = map[*value][]value{}
	e.sol.reset()
}

func (e *explorer) replaying() bool { return e.pos < len(e.prefix) }

// inputName gives the replay-stable name of the next input called `name`.
func (e *explorer) inputName(name string) string {
	k := e.inames[name]
	e.inames[name] = k + 1
	return fmt.Sprintf("%s#%d", name, k)
}

func (e *explorer) fresh(name string, w int, signed bool) value {
	in := e.inputName(name)
	if v, ok := e.fixed[in]; ok {
		switch {
		case w == 0:
			return v != 0
		case w == 8:
			return byte(v)
		default:
			return int(int64(v))
		}
	}
	n := "|" + in + "|"
	if w == 0 {
		e.sol.send(fmt.Sprintf("(declare-const %s Bool)", n))
	} else {
		e.sol.send(fmt.Sprintf("(declare-const %s (_ BitVec %d))", n, w))
	}
	e.inputs = append(e.inputs, n)
	return sym{t: n, w: w, signed: signed}
}

// mk builds a symbolic value, naming large terms so that term strings stay small.
func mk(t string, w int, signed bool) sym {
	if len(t) > 72 && ex != nil {
		ex.ndefs++
		n := fmt.Sprintf("|t!%d|", ex.ndefs)
		sort := "Bool"
		if w > 0 {
			sort = fmt.Sprintf("(_ BitVec %d)", w)
		}
		ex.sol.send(fmt.Sprintf("(define-fun %s () %s %s)", n, sort, t))
		ex.defs[n] = t
		t = n
	}
	return sym{t: t, w: w, signed: signed}
}

func mkBool(t string) sym { return mk(t, 0, false) }

func (e *explorer) assume(c sym) {
	if c.t == "true" {
		return
	}
	e.sol.send("(assert " + c.t + ")")
	e.pc = append(e.pc, c.t)
}

func notT(c sym) sym {
	if strings.HasPrefix(c.t, "(not ") && strings.HasSuffix(c.t, ")") && balanced(c.t[5:len(c.t)-1]) {
		return sym{t: c.t[5 : len(c.t)-1]}
	}
	return sym{t: "(not " + c.t + ")"}
}

func balanced(s string) bool {
	d := 0
	for i := 0; i < len(s); i++ {
		switch s[i] {
		case '(':
			d++
		case ')':
			d--
			if d < 0 {
				return false
			}
		case ' ':
			if d == 0 {
				return false
			}
		}
	}
	return d == 0
}

func (e *explorer) push(d Dec) {
	e.taken = append(e.taken, d)
	e.pos++
}

func (e *explorer) addAlt(d Dec) {
	alt := make([]Dec, len(e.taken)+1)
	copy(alt, e.taken)
	alt[len(e.taken)] = d
	e.alts = append(e.alts, alt)
}

// feasible asks whether pc ∧ c is satisfiable.
func (e *explorer) feasible(c sym) string {
	e.sol.send("(push)")
	e.sol.send("(assert " + c.t + ")")
	r := e.sol.check()
	e.sol.send("(pop)")
	return r
}

// decide picks a branch for a symbolic boolean condition.
func (e *explorer) decide(c sym) bool {
	if c.t == "true" {
		return true
	}
	if c.t == "false" {
		return false
	}
	if e.replaying() {
		d := e.prefix[e.pos]
		if d.K != 0 {
			panic(abortPath{fmt.Sprintf("replay divergence: branch expected, got kind %d at %d", d.K, e.pos)})
		}
		e.push(d)
		if d.V == 1 {
			e.assume(c)
		} else {
			e.assume(notT(c))
		}
		return d.V == 1
	}
	rt := e.feasible(c)
	rf := "sat"
	if rt != "unsat" {
		rf = e.feasible(notT(c))
	}
	if rt == "unknown" || rf == "unknown" {
		panic(abortPath{"solver unknown at branch"})
	}
	e.newDecs++
	switch {
	case rt == "sat" && rf == "sat":
		e.newDecs++
		e.addAlt(Dec{0, 0})
		e.push(Dec{0, 1})
		e.assume(c)
		return true
	case rt == "sat":
		e.push(Dec{0, 1})
		e.assume(c)
		return true
	default:
		e.push(Dec{0, 0})
		e.assume(notT(c))
		return false
	}
}

// concretize enumerates the feasible values of a symbolic bit-vector and
// forks over them (a finite case split; the harness bounds the range).
func (e *explorer) concretize(s sym) int64 {
	if v, ok := e.known[s.t]; ok {
		return signExt(v, s)
	}
	var v uint64
	if e.replaying() {
		d := e.prefix[e.pos]
		if d.K != 1 {
			panic(abortPath{fmt.Sprintf("replay divergence: concretise expected, got kind %d at %d", d.K, e.pos)})
		}
		v = d.V
		e.push(d)
	} else {
		var vals []uint64
		e.sol.send("(push)")
		for {
			r := e.sol.check()
			if r == "unknown" {
				e.sol.send("(pop)")
				panic(abortPath{"solver unknown at concretise"})
			}
			if r == "unsat" {
				break
			}
			ans := e.sol.getValue([]string{s.t})
			x, ok := parseLit(ans)
			if !ok {
				panic(abortPath{"cannot parse model value " + ans})
			}
			vals = append(vals, x)
			if len(vals) > e.maxConc {
				e.sol.send("(pop)")
				panic(abortPath{fmt.Sprintf("concretise: more than %d feasible values for %s", e.maxConc, s.t)})
			}
			e.sol.send(fmt.Sprintf("(assert (not (= %s %s)))", s.t, bvlit(x, s.w)))
		}
		e.sol.send("(pop)")
		if len(vals) == 0 {
			panic(prunePath{"infeasible at concretise"})
		}
		sort.Slice(vals, func(i, j int) bool { return vals[i] < vals[j] })
		e.newDecs += len(vals)
		for _, x := range vals[1:] {
			e.addAlt(Dec{1, x})
		}
		v = vals[0]
		e.push(Dec{1, v})
	}
	e.assume(sym{t: fmt.Sprintf("(= %s %s)", s.t, bvlit(v, s.w))})
	e.known[s.t] = v
	return signExt(v, s)
}

func signExt(v uint64, s sym) int64 {
	if s.signed && s.w < 64 && s.w > 0 {
		sh := uint(64 - s.w)
		return int64(v<<sh) >> sh
	}
	return int64(v)
}

// choose is a structural nondeterministic choice in [0,n): all alternatives
// are feasible by construction, no solver call is needed.
func (e *explorer) choose(name string, n int) int {
	in := e.inputName(name)
	if fv, ok := e.fixed[in]; ok {
		e.choices[in] = fv
		return int(fv)
	}
	var v uint64
	if e.replaying() {
		d := e.prefix[e.pos]
		if d.K != 2 {
			panic(abortPath{fmt.Sprintf("replay divergence: choice expected, got kind %d at %d", d.K, e.pos)})
		}
		v = d.V
		e.push(d)
	} else {
		e.newDecs += n
		for x := 1; x < n; x++ {
			e.addAlt(Dec{2, uint64(x)})
		}
		e.push(Dec{2, 0})
	}
	e.choices[in] = v
	return int(v)
}

// model returns the values of all inputs under the current path condition
// extended by extra (which must already be asserted by the caller).
func (e *explorer) model() map[string]uint64 {
	m := map[string]uint64{}
	for k, v := range e.choices {
		m[k] = v
	}
	if len(e.inputs) == 0 {
		return m
	}
	ans := e.sol.getValue(e.inputs)
	// answer: ((|a#0| #x01) (|b#0| true) ...)
	rest := ans
	for _, in := range e.inputs {
		i := strings.Index(rest, in)
		if i < 0 {
			break
		}
		rest = rest[i+len(in):]
		j := strings.IndexByte(rest, ')')
		if j < 0 {
			break
		}
		v, _ := parseLit("(" + in + " " + strings.TrimSpace(rest[:j]) + ")")
		m[strings.Trim(in, "|")] = v
		rest = rest[j:]
	}
	return m
}

// dependsOnSecret reports whether term t syntactically mentions a secret input.
func (e *explorer) dependsOnSecret(t string) bool {
	if len(e.secrets) == 0 {
		return false
	}
	if v, ok := e.depMemo[t]; ok {
		return v
	}
	res := false
	for i := 0; i < len(t) && !res; i++ {
		if t[i] != '|' {
			continue
		}
		j := strings.IndexByte(t[i+1:], '|')
		if j < 0 {
			break
		}
		name := t[i : i+j+2]
		i += j + 1
		if e.secrets[name] {
			res = true
		} else if body, ok := e.defs[name]; ok {
			res = e.dependsOnSecret(body)
		}
	}
	e.depMemo[t] = res
	return res
}

// ---------------------------------------------------------------- per-path runner

type Worker struct {
	Main    *ssa.Package
	Sizes   types.Sizes
	exp     *explorer
	lastFn  string
	lastOvr string
	solvers    map[string]*solver
	solverName string
}

func NewWorker(mainpkg *ssa.Package) *Worker {
	e := &explorer{sol: newSolver(20000, ""), seenFuncs: map[string]bool{}, seenStubs: map[string]bool{}}
	e.modPrefix = "github.com/wneessen/go-mail"
	e.maxSteps = 50000000
	e.maxConc = 4096
	ex = e
	return &Worker{Main: mainpkg, Sizes: &types.StdSizes{WordSize: 8, MaxAlign: 8}, exp: e}
}

// configure applies the per-job settings (harness function, parameters,
// environment-model overrides).
func (w *Worker) configure(job Job) (*ssa.Function, string) {
	e := w.exp
	fn := w.Main.Func(job.Fn)
	if fn == nil {
		return nil, "no harness function " + job.Fn
	}
	var ks []string
	for k, v := range job.Overrides {
		ks = append(ks, k+"="+v)
	}
	sort.Strings(ks)
	okey := strings.Join(ks, ",")
	if okey != w.lastOvr || job.Fn != w.lastFn {
		overrides = map[string]*ssa.Function{}
		for target, h := range job.Overrides {
			hf := w.Main.Func(h)
			if hf == nil {
				return nil, "override " + target + ": no harness function " + h
			}
			overrides[target] = hf
		}
		fnInfoCache = map[*ssa.Function]*fnInfoT{}
		w.lastOvr = okey
		if job.Fn != w.lastFn {
			e.seenFuncs = map[string]bool{}
			e.seenStubs = map[string]bool{}
			w.lastFn = job.Fn
		}
	}
	e.params = job.Params
	e.fixed = job.Fixed
	if job.Solver != w.solverName {
		// switch the solver process (kept per name for the worker's lifetime)
		if w.solvers == nil {
			w.solvers = map[string]*solver{w.solverName: e.sol}
		}
		sv := w.solvers[job.Solver]
		if sv == nil {
			sv = newSolver(e.sol.timeoutMS, job.Solver)
			w.solvers[job.Solver] = sv
		}
		sv.queries, sv.nsat, sv.nunsat, sv.nunknown, sv.dur = e.sol.queries, e.sol.nsat, e.sol.nunsat, e.sol.nunknown, e.sol.dur
		e.sol = sv
		w.solverName = job.Solver
	}
	if job.TimeoutMS > 0 {
		e.sol.timeoutMS = job.TimeoutMS
	}
	if job.MaxSteps > 0 {
		e.maxSteps = job.MaxSteps
	}
	e.xcheck = job.XCheck
	e.hangViol = job.HangViol
	e.sol.keep = true
	return fn, ""
}

func (w *Worker) Close() { w.exp.sol.close() }

func (w *Worker) RunPath(job Job) (res PathResult) {
	e := w.exp
	t0 := time.Now()
	q0, s0, u0, k0, d0 := e.sol.queries, e.sol.nsat, e.sol.nunsat, e.sol.nunknown, e.sol.dur
	fn, cerr := w.configure(job)
	if fn == nil {
		return PathResult{ID: job.ID, Outcome: "abort", Why: cerr}
	}
	e.resetPath(job.Prefix)
	i := &interpreter{
		prog:       w.Main.Prog,
		globals:    make(map[*ssa.Global]*value),
		sizes:      w.Sizes,
		goroutines: 1,
	}
	i.runtimeErrorString = i.prog.ImportedPackage("runtime").Type("errorString").Object().Type()
	initReflect(i)
	res.ID = job.ID
	res.Outcome = "ok"
	func() {
		defer func() {
			switch p := classifyPanic(recover()).(type) {
			case nil:
			case stopPath:
			case prunePath:
				res.Outcome, res.Why = "pruned", p.why
			case abortPath:
				res.Outcome, res.Why = "abort", p.why
				if e.hangViol && strings.HasPrefix(p.why, "instruction budget exceeded") && !e.replaying() {
					// candidate non-termination: the witness is decided by a native
					// replay under a wall-clock limit (check.go, kind "hang")
					v := Violation{Label: "non-termination", Kind: "hang", Msg: p.why, NPC: len(e.pc), Choices: e.choicesCopy()}
					func() {
						defer func() { recover() }()
						if e.sol.check() == "sat" {
							v.Model = e.model()
						}
					}()
					if v.Model != nil {
						e.viols = append(e.viols, v)
						res.Outcome = "ok"
					}
				}
			case targetPanic:
				e.recordPanic("panic: "+panicText(p.v), &res)
			case runtime.Error:
				if os.Getenv("SYMSTACK") != "" {
					buf := make([]byte, 1<<15)
					fmt.Fprintf(os.Stderr, "%s\n", buf[:runtime.Stack(buf, false)])
				}
				e.recordPanic("panic: "+p.Error(), &res)
			case string:
				e.recordPanic("panic: "+p, &res)
			default:
				buf := make([]byte, 1<<14)
				res.Outcome = "abort"
				res.Why = fmt.Sprintf("interpreter failure: %v\n%s", p, buf[:runtime.Stack(buf, false)])
			}
		}()
		call(i, nil, token.NoPos, w.Main.Func("init"), nil)
		w.installEnv(i)
		call(i, nil, token.NoPos, fn, nil)
	}()
	if res.Outcome == "ok" && e.replaying() {
		res.Outcome, res.Why = "abort", fmt.Sprintf("replay divergence: path ended with %d unused decisions", len(e.prefix)-e.pos)
	}
	if job.Sample && res.Outcome == "ok" {
		func() {
			defer func() { recover() }()
			if e.sol.check() == "sat" {
				pc := e.pc
				if len(pc) > 40 {
					pc = append(append([]string{}, pc[:20]...), fmt.Sprintf("... %d more ...", len(pc)-20))
				}
				var pcs []string
				for _, t := range pc {
					if len(t) > 200 {
						t = t[:200] + "…"
					}
					pcs = append(pcs, t)
				}
				res.Sample = &Sample{Model: e.model(), PC: pcs}
			}
		}()
	}
	res.Alts = e.alts
	res.Violations = e.viols
	for l := range e.reach {
		res.Reach = append(res.Reach, l)
	}
	sort.Strings(res.Reach)
	res.Queries = e.sol.queries - q0
	res.Sat, res.Unsat, res.Unknown = e.sol.nsat-s0, e.sol.nunsat-u0, e.sol.nunknown-k0
	res.SolverNS = int64(e.sol.dur - d0)
	res.WallNS = int64(time.Since(t0))
	res.Steps = i.steps
	res.Decisions = e.newDecs
	res.Funcs = e.newFuncs
	res.Stubs = e.newStubs
	res.Notes = e.notes
	res.Asserts = e.asserts
	res.Scripts = e.scripts
	return res
}

func panicText(v value) string {
	switch x := v.(type) {
	case iface:
		switch s := x.v.(type) {
		case string:
			return s
		case symstr:
			return "<symbolic string>"
		}
		if x.t != nil {
			return fmt.Sprintf("(%s) %s", x.t, toString(x.v))
		}
	}
	return toString(v)
}

// recordPanic records a target panic that escaped the harness entry point.
// A panic raised while still replaying the prefix was already reported by the
// ancestor path that first ran into it.
func (e *explorer) recordPanic(msg string, res *PathResult) {
	if e.replaying() {
		return
	}
	v := Violation{Label: "escaped-panic", Kind: "panic", Msg: msg, NPC: len(e.pc)}
	func() {
		defer func() {
			if p := recover(); p != nil {
				res.Outcome, res.Why = "abort", fmt.Sprint("model extraction failed after panic: ", p)
			}
		}()
		if e.sol.check() == "sat" {
			v.Model = e.model()
		}
	}()
	e.viols = append(e.viols, v)
}

// ---------------------------------------------------------------- intrinsics

func (e *explorer) assertCond(c value, label string) {
	e.asserts++
	switch c := c.(type) {
	case bool:
		if c {
			return
		}
		if e.replaying() {
			panic(stopPath{})
		}
		v := Violation{Label: label, Kind: "assert", NPC: len(e.pc), Choices: e.choicesCopy()}
		if e.sol.check() == "sat" {
			v.Model = e.model()
		}
		e.viols = append(e.viols, v)
		// the assertion is false on the whole path: nothing left to explore
		panic(stopPath{})
	case sym:
		if e.replaying() {
			// already decided by the ancestor that first reached this point
			e.assume(c)
			return
		}
		e.sol.send("(push)")
		e.sol.send("(assert " + notT(c).t + ")")
		r := e.sol.check()
		if e.xcheck {
			e.scripts = append(e.scripts, strings.Join(e.sol.script, "\n")+"\n; expect "+r+"\n")
		}
		if r == "sat" {
			v := Violation{Label: label, Kind: "assert", NPC: len(e.pc), Model: e.model(), Choices: e.choicesCopy()}
			e.viols = append(e.viols, v)
		}
		e.sol.send("(pop)")
		if r == "unknown" {
			panic(abortPath{"solver unknown at assert " + label})
		}
		if r == "sat" {
			// continue on the part of the path where the assertion holds
			if e.feasible(c) != "sat" {
				panic(stopPath{})
			}
		}
		e.assume(c)
	default:
		panic(fmt.Sprintf("svAssert: %T", c))
	}
}

func (e *explorer) assumeCond(c value) {
	switch c := c.(type) {
	case bool:
		if !c {
			panic(prunePath{"assume false"})
		}
	case sym:
		e.assume(c)
		if e.replaying() {
			return
		}
		r := e.sol.check()
		if r == "unsat" {
			panic(prunePath{"assume infeasible"})
		}
		if r != "sat" {
			panic(abortPath{"solver unknown at assume"})
		}
	}
}

func strArg(v value) string {
	switch s := v.(type) {
	case string:
		return s
	case symstr:
		panic(abortPath{"symbolic string passed where a concrete label is required"})
	}
	panic(fmt.Sprintf("strArg %T", v))
}

func intrinsic(name string) externalFn {
	i := strings.LastIndex(name, ".")
	if !strings.HasPrefix(name[i+1:], "sv") {
		return nil
	}
	switch name[i+1:] {
	case "svInt":
		return func(fr *frame, args []value) value { return ex.fresh(strArg(args[0]), 64, true) }
	case "svByte":
		return func(fr *frame, args []value) value { return ex.fresh(strArg(args[0]), 8, false) }
	case "svBool":
		return func(fr *frame, args []value) value { return ex.fresh(strArg(args[0]), 0, false) }
	case "svBytes":
		return func(fr *frame, args []value) value {
			n := int(asInt64(args[1]))
			out := make([]value, n)
			for j := range out {
				out[j] = ex.fresh(strArg(args[0]), 8, false)
			}
			return out
		}
	case "svParam":
		return func(fr *frame, args []value) value {
			if v, ok := ex.params[strArg(args[0])]; ok {
				return v
			}
			return args[1]
		}
	case "svPick":
		return func(fr *frame, args []value) value {
			return ex.choose(strArg(args[0]), int(asInt64(args[1])))
		}
	case "svConcrete":
		return func(fr *frame, args []value) value { return int(asInt64(args[0])) }
	case "svConcreteByte":
		return func(fr *frame, args []value) value {
			if s, ok := args[0].(sym); ok {
				return byte(ex.concretize(s))
			}
			return args[0]
		}
	case "svAssume":
		return func(fr *frame, args []value) value { ex.assumeCond(args[0]); return nil }
	case "svAssert":
		return func(fr *frame, args []value) value { ex.assertCond(args[0], strArg(args[1])); return nil }
	case "svReach":
		return func(fr *frame, args []value) value { ex.reach[strArg(args[0])] = true; return nil }
	case "svNote":
		return func(fr *frame, args []value) value { ex.notes = append(ex.notes, strArg(args[0])); return nil }
	case "svNoop":
		return func(fr *frame, args []value) value { return nil }
	case "svStop":
		return func(fr *frame, args []value) value { panic(stopPath{}) }
	case "svNondetMapOrder":
		return func(fr *frame, args []value) value {
			// nondeterministic iteration order for maps of the given type
			// (substring of the type string) with 2..n live entries
			ex.nondetMapType = strArg(args[0])
			ex.nondetMapMax = int(asInt64(args[1]))
			ex.nondetMap = ex.nondetMapMax >= 2
			return nil
		}
	case "svIsSymbolic":
		return func(fr *frame, args []value) value { return true }
	case "svSecret":
		return func(fr *frame, args []value) value {
			for _, c := range cellsOf(args[0]) {
				if s, ok := c.(sym); ok {
					ex.secrets[s.t] = true
				}
			}
			return nil
		}
	case "svTainted":
		return func(fr *frame, args []value) value {
			for _, c := range cellsOf(args[0]) {
				if s, ok := c.(sym); ok && ex.dependsOnSecret(s.t) {
					return true
				}
			}
			return false
		}
	case "svTaintedInt":
		return func(fr *frame, args []value) value {
			if s, ok := args[0].(sym); ok && ex.dependsOnSecret(s.t) {
				return true
			}
			return false
		}
	case "svPCTainted":
		return func(fr *frame, args []value) value {
			for _, t := range ex.pc {
				if ex.dependsOnSecret(t) {
					return true
				}
			}
			return false
		}
	case "svUF":
		return svUF
	case "svRandRead":
		return func(fr *frame, args []value) value { return randFill(args[0].([]value)) }
	case "svRandMode":
		return func(fr *frame, args []value) value { ex.ghost["randmode"] = int(asInt64(args[0])); return nil }
	case "svLocksHeld":
		return func(fr *frame, args []value) value { return len(ex.heldSnapshot()) }
	case "svWatch":
		return func(fr *frame, args []value) value {
			w, _ := ex.ghost["watch"].(map[*value]bool)
			if w == nil {
				w = map[*value]bool{}
				ex.ghost["watch"] = w
			}
			w[ptrArg(args[0])] = true
			return nil
		}
	case "svWatchDeep":
		// watch every struct that the given struct points to (pointer fields and
		// interface fields holding pointers): objects a Client keeps and shares
		return func(fr *frame, args []value) value {
			w, _ := ex.ghost["watch"].(map[*value]bool)
			if w == nil {
				w = map[*value]bool{}
				ex.ghost["watch"] = w
			}
			var walk func(p *value, depth int)
			walk = func(p *value, depth int) {
				if p == nil || w[p] && depth > 0 {
					return
				}
				st, ok := (*p).(structure)
				if !ok {
					return
				}
				w[p] = true
				if depth >= 3 {
					return
				}
				for _, f := range st {
					if ie, ok := f.(iface); ok {
						f = ie.v
					}
					if pv, ok := f.(*value); ok {
						walk(pv, depth+1)
					}
				}
			}
			walk(ptrArg(args[0]), 0)
			return nil
		}
	case "svLogStart":
		return func(fr *frame, args []value) value { ex.ghost["logid"] = int(asInt64(args[0])); return nil }
	case "svLogStop":
		return func(fr *frame, args []value) value { ex.ghost["logid"] = -1; return nil }
	case "svRaceReport":
		return func(fr *frame, args []value) value {
			return ex.raceReport(int(asInt64(args[0])), int(asInt64(args[1])))
		}
	case "svLockOrderReport":
		// operation class a next to operation class b: a RWMutex that one of them
		// read-locks recursively while the other takes it for writing. Go's RWMutex
		// blocks new readers once a writer waits, so the recursive reader and the
		// writer wait for each other forever.
		return func(fr *frame, args []value) value {
			a, b := int(asInt64(args[0])), int(asInt64(args[1]))
			rec, _ := ex.ghost["rwrec"].(map[int]map[*value]bool)
			wr, _ := ex.ghost["rwwr"].(map[int]map[*value]bool)
			for _, pr := range [][2]int{{a, b}, {b, a}} {
				for m := range rec[pr[0]] {
					if wr[pr[1]][m] {
						return "a sync.RWMutex is read-locked recursively by one operation and write-locked by the other"
					}
				}
			}
			return ""
		}
	case "svHeld":
		return func(fr *frame, args []value) value {
			ls := ex.locks[ptrArg(args[0])]
			if ls == nil {
				return 0
			}
			if ls.writer {
				return 2
			}
			if ls.readers > 0 {
				return 1
			}
			return 0
		}
	case "svLockErrors":
		return func(fr *frame, args []value) value {
			if v, ok := ex.ghost["lockerr"]; ok {
				return v
			}
			return ""
		}
	}
	panic("unknown sv intrinsic " + name)
}

// svUF(tag string, outLen int, parts ...[]byte) []byte : an uninterpreted
// function from the parts (their lengths are part of the function's name) to
// outLen bytes. Arguments are concatenated into one wide bit-vector and the
// result is one wide bit-vector whose bytes are extracted, so an application
// is a single term; functional congruence is all the solver knows about it.
func svUF(fr *frame, args []value) value {
	tag := strArg(args[0])
	outLen := int(asInt64(args[1]))
	var in []value
	shape := ""
	for _, p := range args[2].([]value) {
		c := cellsOf(p)
		shape += fmt.Sprintf("_%d", len(c))
		in = append(in, c...)
	}
	out := make([]value, outLen)
	fname := fmt.Sprintf("|UF_%s%s_%d|", tag, shape, outLen)
	key := "ufdecl:" + fname
	ow := outLen * 8
	if _, ok := ex.ghost[key]; !ok {
		ex.ghost[key] = true
		if len(in) == 0 {
			ex.sol.send(fmt.Sprintf("(declare-const %s (_ BitVec %d))", fname, ow))
		} else {
			ex.sol.send(fmt.Sprintf("(declare-fun %s ((_ BitVec %d)) (_ BitVec %d))", fname, len(in)*8, ow))
		}
	}
	app := fname
	if len(in) > 0 {
		var sb strings.Builder
		if len(in) == 1 {
			sb.WriteString(toSym(in[0]).t)
		} else {
			sb.WriteString("(concat")
			for _, c := range in {
				sb.WriteByte(' ')
				sb.WriteString(toSym(c).t)
			}
			sb.WriteByte(')')
		}
		ak := fname + " " + sb.String()
		if an, ok := ex.ufApps[ak]; ok {
			app = an // same function, syntactically identical arguments: same term
		} else {
			ex.ndefs++
			an := fmt.Sprintf("|ufa!%d|", ex.ndefs)
			ex.sol.send(fmt.Sprintf("(define-fun %s () (_ BitVec %d) (%s %s))", an, ow, fname, sb.String()))
			ex.defs[an] = sb.String()
			ex.ufApps[ak] = an
			app = an
		}
	}
	for j := 0; j < outLen; j++ {
		hi := ow - 1 - 8*j
		out[j] = sym{fmt.Sprintf("((_ extract %d %d) %s)", hi, hi-7, app), 8, false}
	}
	return out
}

// installEnv wires engine-provided environment objects into package globals
// whose own initialisers are not run (crypto/rand.Reader).
func (w *Worker) installEnv(i *interpreter) {
	rp := i.prog.ImportedPackage("crypto/rand")
	tm := w.Main.Type("svRandReader")
	if rp == nil || tm == nil {
		return
	}
	g, ok := rp.Members["Reader"].(*ssa.Global)
	if !ok {
		return
	}
	var cell value = iface{t: tm.Type(), v: structure{}}
	i.globals[g] = &cell
}

// randFill models the system random source. Mode 0 (default): concrete bytes
// that differ from call to call (so that two random boundaries or message ids
// are never equal by accident of the model); mode 1: fresh symbolic bytes.
func randFill(b []value) value {
	c, _ := ex.ghost["randcalls"].(int)
	ex.ghost["randcalls"] = c + 1
	mode, _ := ex.ghost["randmode"].(int)
	for j := range b {
		if mode == 1 {
			b[j] = ex.fresh("rand", 8, false)
		} else {
			b[j] = byte((c+1)*131 + j*37 + 11 + (c+1)*(j+3)*7)
		}
	}
	return tuple{len(b), iface{}}
}

// ---------------------------------------------------------------- ghost locks and access log (C13)

// lockOp maintains the ghost state of a sync.Mutex / sync.RWMutex in a
// sequential execution: acquiring a lock that the (single) thread already
// holds in a conflicting mode is a self-deadlock, releasing one that is not
// held is a run-time error in Go; both are recorded.
func (e *explorer) lockOp(m *value, op string) {
	ls := e.locks[m]
	if ls == nil {
		ls = &lockState{}
		e.locks[m] = ls
	}
	fail := func(msg string) {
		if _, ok := e.ghost["lockerr"]; !ok {
			e.ghost["lockerr"] = msg
		}
	}
	note := func(key string) {
		id, ok := e.ghost["logid"].(int)
		if !ok || id < 0 {
			return
		}
		mm, _ := e.ghost[key].(map[int]map[*value]bool)
		if mm == nil {
			mm = map[int]map[*value]bool{}
			e.ghost[key] = mm
		}
		if mm[id] == nil {
			mm[id] = map[*value]bool{}
		}
		mm[id][m] = true
	}
	switch op {
	case "Lock":
		if ls.writer || ls.readers > 0 {
			fail("Lock of a mutex the goroutine already holds (self-deadlock)")
		}
		ls.writer = true
		note("rwwr")
	case "Unlock":
		if !ls.writer {
			fail("Unlock of a mutex that is not locked")
		}
		ls.writer = false
	case "RLock":
		if ls.writer {
			fail("RLock of a mutex the goroutine holds for writing (self-deadlock)")
		}
		if ls.readers > 0 {
			note("rwrec")
		}
		ls.readers++
	case "RUnlock":
		if ls.readers <= 0 {
			fail("RUnlock of a mutex that is not read-locked")
		} else {
			ls.readers--
		}
	}
}

type accessRec struct {
	obj   *value
	name  string // Type.field
	write bool
	locks map[*value]int // lock -> 1 read mode, 2 write mode
}

func (e *explorer) heldSnapshot() map[*value]int {
	r := map[*value]int{}
	for m, ls := range e.locks {
		if ls.writer {
			r[m] = 2
		} else if ls.readers > 0 {
			r[m] = 1
		}
	}
	return r
}

// logAccess records a field access to a watched object.
func (e *explorer) logAccess(obj *value, name string, write bool) {
	id, ok := e.ghost["logid"].(int)
	if !ok || id < 0 {
		return
	}
	logs, _ := e.ghost["logs"].(map[int][]accessRec)
	if logs == nil {
		logs = map[int][]accessRec{}
		e.ghost["logs"] = logs
	}
	logs[id] = append(logs[id], accessRec{obj: obj, name: name, write: write, locks: e.heldSnapshot()})
}

// raceReport looks for two accesses, one from each log, to the same field of
// the same object, at least one a write, whose lock sets do not exclude each
// other (a lock excludes if both hold it and at least one holds it for writing).
func (e *explorer) raceReport(a, b int) string {
	logs, _ := e.ghost["logs"].(map[int][]accessRec)
	for _, x := range logs[a] {
		for _, y := range logs[b] {
			if x.obj != y.obj || x.name != y.name || !(x.write || y.write) {
				continue
			}
			excl := false
			for m, mx := range x.locks {
				if my, ok := y.locks[m]; ok && (mx == 2 || my == 2) {
					excl = true
					break
				}
			}
			if !excl {
				return x.name
			}
		}
	}
	return ""
}

func ptrArg(v value) *value {
	switch p := v.(type) {
	case *value:
		return p
	case iface:
		if q, ok := p.v.(*value); ok {
			return q
		}
	}
	panic(abortPath{fmt.Sprintf("engine: pointer argument expected, got %T", v)})
}

func (e *explorer) choicesCopy() map[string]uint64 {
	m := map[string]uint64{}
	for k, v := range e.choices {
		m[k] = v
	}
	return m
}
