package interp

import (
	"fmt"
	"go/token"
	"go/types"
	"strings"

	"golang.org/x/tools/go/ssa"
)

// strCells returns the byte cells of a string-like value.
func strCells(x value) ([]value, bool) {
	switch x := x.(type) {
	case string:
		c := make([]value, len(x))
		for i := 0; i < len(x); i++ {
			c[i] = x[i]
		}
		return c, true
	case symstr:
		return []value(x), true
	}
	return nil, false
}

func isStrLike(x value) bool {
	switch x.(type) {
	case string, symstr:
		return true
	}
	return false
}

// mkStr collapses cells into a Go string if fully concrete.
func mkStr(cells []value) value {
	for _, c := range cells {
		if isSym(c) {
			out := make(symstr, len(cells))
			copy(out, cells)
			return out
		}
	}
	b := make([]byte, len(cells))
	for i, c := range cells {
		b[i] = c.(byte)
	}
	return string(b)
}

func byteEq(a, b value) value {
	if !isSym(a) && !isSym(b) {
		return a.(byte) == b.(byte)
	}
	return sym{t: fmt.Sprintf("(= %s %s)", toSym(a).t, toSym(b).t)}
}

func and2(a, b value) value {
	if ab, ok := a.(bool); ok {
		if !ab {
			return false
		}
		return b
	}
	if bb, ok := b.(bool); ok {
		if !bb {
			return false
		}
		return a
	}
	return sym{t: fmt.Sprintf("(and %s %s)", a.(sym).t, b.(sym).t)}
}

func not1(a value) value {
	if ab, ok := a.(bool); ok {
		return !ab
	}
	return sym{t: "(not " + a.(sym).t + ")"}
}

func cellsEq(a, b []value) value {
	if len(a) != len(b) {
		return false
	}
	var r value = true
	for i := range a {
		r = and2(r, byteEq(a[i], b[i]))
		if rb, ok := r.(bool); ok && !rb {
			return false
		}
	}
	return r
}

func strBinop(op token.Token, x, y value) value {
	a, _ := strCells(x)
	b, _ := strCells(y)
	switch op {
	case token.ADD:
		return mkStr(append(append([]value{}, a...), b...))
	case token.EQL:
		return cellsEq(a, b)
	case token.NEQ:
		return not1(cellsEq(a, b))
	}
	// ordered comparison: concretize by forking on bytes
	for i := 0; i < len(a) && i < len(b); i++ {
		if truth(byteEq(a[i], b[i])) {
			continue
		}
		lt := truth(symBinop(token.LSS, nil, a[i], b[i]))
		switch op {
		case token.LSS, token.LEQ:
			return lt
		default:
			return !lt
		}
	}
	switch op {
	case token.LSS:
		return len(a) < len(b)
	case token.LEQ:
		return len(a) <= len(b)
	case token.GTR:
		return len(a) > len(b)
	}
	return len(a) >= len(b)
}

// truth forces a boolean value (forking if symbolic).
func truth(v value) bool {
	switch v := v.(type) {
	case bool:
		return v
	case sym:
		return ex.decide(v)
	}
	panic(fmt.Sprintf("truth %T", v))
}

// selectCell returns cells[idx] for symbolic idx as an ite chain (bytes only).
func selectCell(cells []value, idx sym) value {
	if len(cells) == 0 {
		panic("runtime error: index out of range [symbolic] with length 0")
	}
	if v, ok := ex.known[idx.t]; ok {
		if v >= uint64(len(cells)) {
			panic(fmt.Sprintf("runtime error: index out of range [%d] with length %d", v, len(cells)))
		}
		return cells[v]
	}
	// bounds check (trivially true when the index type cannot exceed the length,
	// or when the index is masked with a constant below the length)
	if (idx.w >= 64 || uint64(len(cells)) < uint64(1)<<uint(idx.w)) && !maskedBelow(idx.t, len(cells)) {
		inb := sym{t: fmt.Sprintf("(bvult %s %s)", idx.t, bvlit(uint64(len(cells)), idx.w))}
		if !ex.decide(inb) {
			panic(fmt.Sprintf("runtime error: index out of range [symbolic] with length %d", len(cells)))
		}
	}
	// table lookup of a table lookup (e.g. base64 decodeMap[encode[i]]): compose
	// the two constant tables, so that inverse tables collapse to the index
	orgKey := idx.t
	if strings.HasPrefix(orgKey, "((_ zero_extend ") && strings.HasSuffix(orgKey, ")") {
		// a lookup result that was widened before being used as an index
		if j := strings.Index(orgKey, ") "); j > 0 {
			orgKey = orgKey[j+2 : len(orgKey)-1]
		}
	}
	if org, ok := ex.selOrigin[orgKey]; ok {
		if outer, ok2 := constCells(cells); ok2 {
			comp := make([]value, len(org.cells))
			okc := true
			ident := true
			for i, v := range org.cells {
				if v >= uint64(len(outer)) {
					okc = false
					break
				}
				comp[i] = outer[v]
				if u, isU := asU64(outer[v]); !isU || u != uint64(i) {
					ident = false
				}
			}
			if okc {
				first := toSym(cells[0])
				if ident {
					// result equals the original index, in the cell type
					switch {
					case first.w == org.idx.w:
						return sym{org.idx.t, first.w, first.signed}
					case first.w < org.idx.w:
						return mk(fmt.Sprintf("((_ extract %d 0) %s)", first.w-1, org.idx.t), first.w, first.signed)
					default:
						return mk(fmt.Sprintf("((_ zero_extend %d) %s)", first.w-org.idx.w, org.idx.t), first.w, first.signed)
					}
				}
				return selectCell(comp, org.idx)
			}
		}
	}
	// the most frequent concrete value becomes the default of the ite chain
	first := toSym(cells[0])
	cnt := map[string]int{}
	best, bestN := "", 0
	terms := make([]string, len(cells))
	for i, c := range cells {
		t := toSym(c).t
		terms[i] = t
		cnt[t]++
		if cnt[t] > bestN {
			best, bestN = t, cnt[t]
		}
	}
	var sb strings.Builder
	n := 0
	for i, t := range terms {
		if t == best {
			continue
		}
		fmt.Fprintf(&sb, "(ite (= %s %s) %s ", idx.t, bvlit(uint64(i), idx.w), t)
		n++
	}
	sb.WriteString(best)
	for i := 0; i < n; i++ {
		sb.WriteByte(')')
	}
	res := mk(sb.String(), first.w, first.signed)
	if cc, ok := constCells(cells); ok {
		vals := make([]uint64, len(cc))
		for i, c := range cc {
			vals[i], _ = asU64(c)
		}
		ex.selOrigin[res.t] = selOrig{cells: vals, idx: idx}
	}
	return res
}

type selOrig struct {
	cells []uint64
	idx   sym
}

func asU64(v value) (uint64, bool) {
	switch x := v.(type) {
	case uint8:
		return uint64(x), true
	case int8:
		return uint64(uint8(x)), true
	case uint16:
		return uint64(x), true
	case int16:
		return uint64(uint16(x)), true
	case uint32:
		return uint64(x), true
	case int32:
		return uint64(uint32(x)), true
	case uint64:
		return x, true
	case int64:
		return uint64(x), true
	case uint:
		return uint64(x), true
	case int:
		return uint64(x), true
	}
	return 0, false
}

// constCells returns the cells if all of them are concrete integers.
func constCells(cells []value) ([]value, bool) {
	for _, c := range cells {
		if _, ok := asU64(c); !ok {
			return nil, false
		}
	}
	return cells, true
}

type symstrIter struct {
	cells []value
	i     int
}

func (it *symstrIter) next() tuple {
	okv := make(tuple, 3)
	if it.i >= len(it.cells) {
		okv[0] = false
		return okv
	}
	okv[0] = true
	okv[1] = it.i
	r, n := symDecodeRune(it.cells, it.i)
	okv[2] = r
	it.i += n
	return okv
}

// symbolic-aware bytealg helpers
func indexByteCells(cells []value, c value) value {
	for i := range cells {
		if truth(byteEq(cells[i], c)) {
			return i
		}
	}
	return -1
}

func countByteCells(cells []value, c value) value {
	n := 0
	for i := range cells {
		if truth(byteEq(cells[i], c)) {
			n++
		}
	}
	return n
}

func indexCells(a, b []value) value {
	for i := 0; i+len(b) <= len(a); i++ {
		if truth(cellsEq(a[i:i+len(b)], b)) {
			return i
		}
	}
	return -1
}

func anySym(cells []value) bool {
	for _, c := range cells {
		if isSym(c) {
			return true
		}
	}
	return false
}

func cellsOf(v value) []value {
	if c, ok := strCells(v); ok {
		return c
	}
	return v.([]value)
}

// symFmt is the engine's fmt.Sprintf.  The format itself may hold symbolic
// bytes (caller data that reached a Printf-style function as the format): each
// such byte is either '%' - decided by the solver, the verb bytes after it are
// then concretised - or a literal that is copied through symbolically.
func symFmt(formatV value, args []value, fr *frame) value {
	fc, _ := strCells(formatV)
	format := append([]value{}, fc...)
	at := func(i int) byte {
		switch c := format[i].(type) {
		case byte:
			return c
		case sym:
			b := byte(ex.concretize(c))
			format[i] = b
			return b
		}
		panic(abortPath{fmt.Sprintf("engine: format cell %T", format[i])})
	}
	var out []value
	ai := 0
	for i := 0; i < len(format); i++ {
		if sc, ok := format[i].(sym); ok {
			if !ex.decide(sym{t: fmt.Sprintf("(= %s #x25)", sc.t)}) {
				out = append(out, sc)
				continue
			}
		} else if at(i) != '%' {
			out = append(out, format[i])
			continue
		}
		i++
		spec := "%"
		for i < len(format) && strings.IndexByte("0123456789.+-# ", at(i)) >= 0 {
			spec += string(at(i))
			i++
		}
		if i >= len(format) {
			for _, b := range []byte("%!(NOVERB)") {
				out = append(out, b)
			}
			break
		}
		verb := at(i)
		if verb == '%' {
			out = append(out, byte('%'))
			continue
		}
		if ai >= len(args) {
			for _, b := range []byte("%!" + string(verb) + "(MISSING)") {
				out = append(out, b)
			}
			continue
		}
		a := args[ai].(iface)
		ai++
		v := a.v
		if a.t == nil {
			txt := "%!" + string(verb) + "(<nil>)"
			if verb == 'v' {
				txt = "<nil>"
			}
			for _, b := range []byte(txt) {
				out = append(out, b)
			}
			continue
		}
		// error / Stringer
		if a.t != nil && (verb == 's' || verb == 'v' || verb == 'w' || verb == 'q') {
			ms := fr.i.prog.MethodSets.MethodSet(a.t)
			if sel := ms.Lookup(nil, "Error"); sel != nil {
				v = call(fr.i, fr, 0, fr.i.prog.MethodValue(sel), []value{a.v})
			} else if sel := ms.Lookup(nil, "String"); sel != nil {
				v = call(fr.i, fr, 0, fr.i.prog.MethodValue(sel), []value{a.v})
			}
		}
		if verb == 'w' {
			verb = 'v' // %w formats like %v; the wrapping itself is done by the Errorf stub
		}
		switch x := v.(type) {
		case symstr:
			out = append(out, fmtSymBytes(fr, []value(x), verb)...)
		case []value:
			isBytes := false
			if sl, ok := a.t.Underlying().(*types.Slice); ok {
				if bt, ok := sl.Elem().Underlying().(*types.Basic); ok && bt.Kind() == types.Uint8 {
					isBytes = true
				}
			}
			switch {
			case isBytes && anySym(x):
				out = append(out, fmtSymBytes(fr, x, verb)...)
			case isBytes:
				for _, b := range []byte(fmt.Sprintf(spec+string(verb), bytesOf(x))) {
					out = append(out, b)
				}
			case verb == 'v' || verb == 's':
				// slice of other elements: [e1 e2 ...]
				out = append(out, byte('['))
				sl, _ := a.t.Underlying().(*types.Slice)
				for k, e := range x {
					if k > 0 {
						out = append(out, byte(' '))
					}
					var et types.Type
					if sl != nil {
						et = sl.Elem()
					}
					if ie, ok := e.(iface); ok {
						et, e = ie.t, ie.v
					}
					part := symFmt("%v", []value{iface{t: et, v: e}}, fr)
					pc, _ := strCells(part)
					out = append(out, pc...)
				}
				out = append(out, byte(']'))
			default:
				panic(abortPath{"engine: unsupported format verb %" + string(verb) + " for a slice"})
			}
		case structure, *value:
			// %v of a struct or of a pointer to a struct: {f1 f2 ...} / &{f1 f2 ...}
			st, isStruct := x.(structure)
			prefix := "{"
			var stType *types.Struct
			if pv, ok := x.(*value); ok {
				if pv == nil {
					for _, b := range []byte("<nil>") {
						out = append(out, b)
					}
					break
				}
				st, isStruct = (*pv).(structure)
				prefix = "&{"
				if pt, ok := a.t.Underlying().(*types.Pointer); ok {
					stType, _ = pt.Elem().Underlying().(*types.Struct)
				}
			} else {
				stType, _ = a.t.Underlying().(*types.Struct)
			}
			if !isStruct || stType == nil || verb != 'v' || stType.NumFields() != len(st) {
				panic(abortPath{fmt.Sprintf("engine: unsupported fmt argument %T for %%%c", x, verb)})
			}
			for _, b := range []byte(prefix) {
				out = append(out, b)
			}
			for k, f := range st {
				if k > 0 {
					out = append(out, byte(' '))
				}
				ft := stType.Field(k).Type()
				if ie, ok := f.(iface); ok {
					ft, f = ie.t, ie.v
				}
				part := symFmt("%v", []value{iface{t: ft, v: f}}, fr)
				pc, _ := strCells(part)
				out = append(out, pc...)
			}
			out = append(out, byte('}'))
		case array, *omap, tuple:
			panic(abortPath{fmt.Sprintf("engine: unsupported fmt argument %T for %%%c", x, verb)})
		case sym:
			if verb == 'd' && spec == "%03" {
				// three decimal digits of a value assumed in [0,999]
				for _, d := range []uint64{100, 10, 1} {
					t := fmt.Sprintf("(bvadd #x30 ((_ extract 7 0) (bvurem (bvudiv %s %s) %s)))", x.t, bvlit(d, x.w), bvlit(10, x.w))
					out = append(out, sym{t, 8, false})
				}
			} else {
				c := concreteOfW(x, ex.concretize(x))
				for _, b := range []byte(fmt.Sprintf(spec+string(verb), c)) {
					out = append(out, b)
				}
			}
		default:
			for _, b := range []byte(fmt.Sprintf(spec+string(verb), x)) {
				out = append(out, b)
			}
		}
	}
	return mkStr(out)
}

func concreteOfW(s sym, v int64) value {
	switch {
	case s.w == 64 && s.signed:
		return int(v)
	case s.w == 64:
		return uint64(v)
	case s.w == 32 && s.signed:
		return int32(v)
	case s.w == 32:
		return uint32(v)
	case s.w == 8:
		return uint8(v)
	}
	return int(v)
}

// symAddr is the address of an element selected by a symbolic index; it only
// exists for IndexAddr results whose sole use is a load.
type symAddr struct {
	cells []value
	idx   sym
}

var onlyLoadedCache = map[*ssa.IndexAddr]bool{}

func onlyLoaded(instr *ssa.IndexAddr) bool {
	if r, ok := onlyLoadedCache[instr]; ok {
		return r
	}
	r := true
	refs := instr.Referrers()
	if refs == nil || len(*refs) == 0 {
		r = false
	} else {
		for _, u := range *refs {
			if uo, ok := u.(*ssa.UnOp); ok && uo.Op == token.MUL {
				continue
			}
			if _, ok := u.(*ssa.DebugRef); ok {
				continue
			}
			r = false
		}
	}
	onlyLoadedCache[instr] = r
	return r
}

// scalarCells reports whether all cells hold integer scalars (so that an ite
// chain over them is a bit-vector term).
func scalarCells(cells []value) bool {
	if len(cells) == 0 || len(cells) > 4096 {
		return false
	}
	for _, c := range cells {
		switch c.(type) {
		case sym, int, int8, int16, int32, int64, uint, uint8, uint16, uint32, uint64, uintptr:
		default:
			return false
		}
	}
	return true
}

func lastIndexByteCells(cells []value, c value) value {
	for i := len(cells) - 1; i >= 0; i-- {
		if truth(byteEq(cells[i], c)) {
			return i
		}
	}
	return -1
}

// maskedBelow recognises index terms of the form (bvand X #x...) whose
// constant mask is smaller than n.
func maskedBelow(t string, n int) bool {
	if !strings.HasPrefix(t, "(bvand ") || !strings.HasSuffix(t, ")") {
		return false
	}
	i := strings.LastIndex(t, " #x")
	if i < 0 {
		return false
	}
	lit := t[i+3 : len(t)-1]
	var v uint64
	for _, c := range lit {
		switch {
		case c >= '0' && c <= '9':
			v = v<<4 | uint64(c-'0')
		case c >= 'a' && c <= 'f':
			v = v<<4 | uint64(c-'a'+10)
		default:
			return false
		}
	}
	return v < uint64(n)
}

// fmtSymBytes formats a string / byte slice holding symbolic bytes.
func fmtSymBytes(fr *frame, cells []value, verb byte) []value {
	switch verb {
	case 's', 'v', 'w':
		return cells
	case 'q':
		// strconv.Quote decides per byte how to escape: interpret its source
		q := fr.i.prog.ImportedPackage("strconv").Func("Quote")
		r := call(fr.i, fr, 0, q, []value{mkStr(cells)})
		rc, _ := strCells(r)
		return rc
	case 'x', 'X':
		digits := "0123456789abcdef"
		if verb == 'X' {
			digits = "0123456789ABCDEF"
		}
		dc, _ := strCells(digits)
		var out []value
		for _, c := range cells {
			if cb, ok := c.(byte); ok {
				out = append(out, digits[cb>>4], digits[cb&15])
				continue
			}
			s := c.(sym)
			hi := sym{fmt.Sprintf("(bvlshr %s #x04)", s.t), 8, false}
			lo := sym{fmt.Sprintf("(bvand %s #x0f)", s.t), 8, false}
			out = append(out, selectCell(dc, hi), selectCell(dc, lo))
		}
		return out
	}
	panic(abortPath{"engine: unsupported format verb %" + string(verb) + " for symbolic bytes"})
}
