package interp

// Symbolic UTF-8 decoding / encoding with Go's exact semantics (invalid
// sequences decode to U+FFFD with width 1). Paths fork on the class of the
// lead byte and on the validity of continuation bytes.

import (
	"fmt"
	"unicode/utf8"
)

func inRange(b value, lo, hi byte) bool {
	if cb, ok := b.(byte); ok {
		return cb >= lo && cb <= hi
	}
	s := b.(sym)
	c := sym{t: fmt.Sprintf("(and (bvuge %s %s) (bvule %s %s))", s.t, bvlit(uint64(lo), 8), s.t, bvlit(uint64(hi), 8))}
	return ex.decide(c)
}

func zext32(b value) string {
	if cb, ok := b.(byte); ok {
		return bvlit(uint64(cb), 32)
	}
	return fmt.Sprintf("((_ zero_extend 24) %s)", b.(sym).t)
}

// symDecodeRune decodes the rune starting at cells[i] (i < len(cells)).
func symDecodeRune(cells []value, i int) (value, int) {
	// fully concrete prefix: native decoding
	conc := true
	var buf []byte
	for j := i; j < len(cells) && j < i+4; j++ {
		cb, ok := cells[j].(byte)
		if !ok {
			conc = false
			break
		}
		buf = append(buf, cb)
	}
	if conc || (len(buf) > 0 && utf8.FullRune(buf)) {
		r, n := utf8.DecodeRune(buf)
		return r, n
	}
	b0 := cells[i]
	if inRange(b0, 0x00, 0x7f) {
		if cb, ok := b0.(byte); ok {
			return rune(cb), 1
		}
		return mk(zext32(b0), 32, true), 1
	}
	bad := func() (value, int) { return rune(utf8.RuneError), 1 }
	type cls struct {
		lo, hi   byte // lead byte range
		size     int
		alo, ahi byte // accepted range of the first continuation byte
	}
	classes := []cls{
		{0xc2, 0xdf, 2, 0x80, 0xbf},
		{0xe0, 0xe0, 3, 0xa0, 0xbf},
		{0xe1, 0xec, 3, 0x80, 0xbf},
		{0xed, 0xed, 3, 0x80, 0x9f},
		{0xee, 0xef, 3, 0x80, 0xbf},
		{0xf0, 0xf0, 4, 0x90, 0xbf},
		{0xf1, 0xf3, 4, 0x80, 0xbf},
		{0xf4, 0xf4, 4, 0x80, 0x8f},
	}
	for _, c := range classes {
		if !inRange(b0, c.lo, c.hi) {
			continue
		}
		if i+c.size > len(cells) {
			return bad()
		}
		if !inRange(cells[i+1], c.alo, c.ahi) {
			return bad()
		}
		for k := 2; k < c.size; k++ {
			if !inRange(cells[i+k], 0x80, 0xbf) {
				return bad()
			}
		}
		var t string
		switch c.size {
		case 2:
			t = fmt.Sprintf("(bvor (bvshl (bvand %s #x0000001f) #x00000006) (bvand %s #x0000003f))", zext32(b0), zext32(cells[i+1]))
		case 3:
			t = fmt.Sprintf("(bvor (bvshl (bvand %s #x0000000f) #x0000000c) (bvor (bvshl (bvand %s #x0000003f) #x00000006) (bvand %s #x0000003f)))",
				zext32(b0), zext32(cells[i+1]), zext32(cells[i+2]))
		default:
			t = fmt.Sprintf("(bvor (bvshl (bvand %s #x00000007) #x00000012) (bvor (bvshl (bvand %s #x0000003f) #x0000000c) (bvor (bvshl (bvand %s #x0000003f) #x00000006) (bvand %s #x0000003f))))",
				zext32(b0), zext32(cells[i+1]), zext32(cells[i+2]), zext32(cells[i+3]))
		}
		return mk(t, 32, true), c.size
	}
	return bad()
}

// symEncodeRune returns the UTF-8 encoding of a symbolic rune (forks on the
// encoded length; invalid runes encode as U+FFFD like string(rune)).
func symEncodeRune(r sym) []value {
	lt := func(v uint64) bool {
		return ex.decide(sym{t: fmt.Sprintf("(bvult %s %s)", r.t, bvlit(v, 32))})
	}
	ext := func(hi, lo int, or byte) value {
		// byte = or | bits[hi:lo] of r
		n := hi - lo + 1
		t := fmt.Sprintf("((_ extract %d %d) %s)", hi, lo, r.t)
		if n < 8 {
			t = fmt.Sprintf("((_ zero_extend %d) %s)", 8-n, t)
		}
		return mk(fmt.Sprintf("(bvor %s %s)", bvlit(uint64(or), 8), t), 8, false)
	}
	fffd := []value{byte(0xef), byte(0xbf), byte(0xbd)}
	switch {
	case lt(0x80):
		return []value{mk(fmt.Sprintf("((_ extract 7 0) %s)", r.t), 8, false)}
	case lt(0x800):
		return []value{ext(10, 6, 0xc0), ext(5, 0, 0x80)}
	case lt(0x10000):
		// surrogates are invalid
		if !lt(0xd800) && lt(0xe000) {
			return fffd
		}
		return []value{ext(15, 12, 0xe0), ext(11, 6, 0x80), ext(5, 0, 0x80)}
	case lt(0x110000):
		return []value{ext(20, 18, 0xf0), ext(17, 12, 0x80), ext(11, 6, 0x80), ext(5, 0, 0x80)}
	}
	return fffd
}

// symRunes converts a symbolic string to its rune sequence.
func symRunes(cells []value) []value {
	var out []value
	for i := 0; i < len(cells); {
		r, n := symDecodeRune(cells, i)
		out = append(out, r)
		i += n
	}
	return out
}

// runesToStr converts runes (possibly symbolic) to a string value.
func runesToStr(rs []value) value {
	var cells []value
	for _, r := range rs {
		switch r := r.(type) {
		case sym:
			cells = append(cells, symEncodeRune(r)...)
		default:
			for _, b := range []byte(string(rune(asInt64(r)))) {
				cells = append(cells, b)
			}
		}
	}
	return mkStr(cells)
}
