package main

import (
	"encoding/json"
	"fmt"
	"os"
	"os/exec"
	"path/filepath"
	"regexp"
	"sort"
	"strings"
	"sync"
	"time"

	interp "symgo"
)

type RunSpec struct {
	Name      string            `json:"name"`
	Pkg       string            `json:"pkg"`
	Files     []string          `json:"files"`
	Fn        string            `json:"fn"`
	Quick     map[string]int    `json:"quick"`
	Thorough  map[string]int    `json:"thorough"`
	Tiers     []string          `json:"tiers"` // default both
	Reach     []string          `json:"reach"`
	Overrides map[string]string `json:"overrides"`
	TimeoutMS int               `json:"timeout_ms"`
	MaxSteps  int64             `json:"max_steps"`
	HangViol  bool              `json:"hang_is_violation"`
	Bound     string            `json:"bound"`
	Tries     int               `json:"replay_tries"`
	Workers   int               `json:"workers"`
	MaxWallS  int               `json:"max_wall_s"`
	// labels (regexp) whose observable exists only inside the engine (ghost
	// lock state, lock sets): a witness is confirmed by re-running the real
	// code in the engine with every input fixed to the model's values
	EngineConfirm string `json:"engine_confirm"`
	Solver        string `json:"solver"` // solver binary for this run (default z3)
}

type PropSpec struct {
	Property    string    `json:"property"`
	Assumptions []string  `json:"assumptions"`
	Outside     []string  `json:"outside_claim"`
	Runs        []RunSpec `json:"runs"`
}

type Finding struct {
	Property string `json:"property"`
	Run      string `json:"run"`   // regexp on run name
	Label    string `json:"label"` // regexp on violation label
	Msg      string `json:"msg"`   // optional regexp on panic message
	What     string `json:"what"`
}

type FindingsFile struct {
	Known []Finding `json:"known"`
	Fixed []string  `json:"fixed"`
}

func loadFindings() FindingsFile {
	var f FindingsFile
	b, err := os.ReadFile(filepath.Join(verifRoot, "known_findings.json"))
	if err == nil {
		if e := json.Unmarshal(b, &f); e != nil {
			fatal("known_findings.json: %v", e)
		}
	}
	return f
}

func (f Finding) matches(prop, run string, v interp.Violation) bool {
	if f.Property != prop {
		return false
	}
	ok := func(pat, s string) bool {
		if pat == "" {
			return true
		}
		m, err := regexp.MatchString(pat, s)
		return err == nil && m
	}
	return ok(f.Run, run) && ok(f.Label, v.Label) && ok(f.Msg, v.Msg)
}

// ---------------------------------------------------------------- native replay

type ReplayFile struct {
	Property string            `json:"property"`
	Run      string            `json:"run"`
	Pkg      string            `json:"pkg"`
	Files    []string          `json:"files"`
	Fn       string            `json:"fn"`
	Label    string            `json:"label"`
	Kind     string            `json:"kind"`
	Msg      string            `json:"msg,omitempty"`
	Inputs   map[string]uint64 `json:"inputs"`
	Params   map[string]int    `json:"params"`
	Tries    int               `json:"tries,omitempty"`
}

type replayer struct {
	scratch string
	bins    map[string]string // key(pkg+files) -> test binary
	dir     string
}

func newReplayer(dir string) *replayer {
	s, err := os.MkdirTemp("", "symgo-replay-")
	if err != nil {
		fatal("%v", err)
	}
	return &replayer{scratch: s, bins: map[string]string{}, dir: dir}
}

func (r *replayer) cleanup() { os.RemoveAll(r.scratch) }

var harnessFnRe = regexp.MustCompile(`(?m)^func (Harness\w*)\(\)`)

func (r *replayer) binary(pkg string, files []string) (string, error) {
	key := pkg + "|" + strings.Join(files, ",")
	if b, ok := r.bins[key]; ok {
		return b, nil
	}
	ls := &loadSpec{Dir: r.dir, Pkg: pkg, Files: files}
	ov := overlayFiles(ls)
	sub := filepath.Join(r.scratch, fmt.Sprintf("b%d", len(r.bins)))
	os.MkdirAll(sub, 0o755)
	repl := map[string]string{}
	var fns []string
	for virt, src := range ov {
		real := filepath.Join(sub, filepath.Base(virt))
		os.WriteFile(real, src, 0o644)
		repl[virt] = real
		for _, m := range harnessFnRe.FindAllSubmatch(src, -1) {
			fns = append(fns, string(m[1]))
		}
	}
	sort.Strings(fns)
	pd := pkgDir(ls)
	var sb strings.Builder
	fmt.Fprintf(&sb, "package %s\n\nimport (\n\t\"fmt\"\n\t\"os\"\n\t\"testing\"\n)\n\nvar svHarnesses = map[string]func(){\n", pkgName(pd))
	for _, f := range fns {
		fmt.Fprintf(&sb, "\t%q: %s,\n", f, f)
	}
	sb.WriteString(`}

func TestSVReplay(t *testing.T) {
	svLoad(os.Getenv("SV_REPLAY"))
	fn := svHarnesses[os.Getenv("SV_FN")]
	if fn == nil {
		t.Fatal("no such harness")
	}
	defer func() {
		if r := recover(); r != nil {
			if _, ok := r.(svStopT); ok {
				fmt.Println("SV-DONE")
				return
			}
			fmt.Println("SV-PANIC", r)
			panic(r)
		}
	}()
	fn()
	fmt.Println("SV-DONE")
}
`)
	tf := filepath.Join(sub, "zz_verif_replay_test.go")
	os.WriteFile(tf, []byte(sb.String()), 0o644)
	repl[filepath.Join(pd, "zz_verif_replay_test.go")] = tf
	ovj, _ := json.Marshal(map[string]interface{}{"Replace": repl})
	ovp := filepath.Join(sub, "overlay.json")
	os.WriteFile(ovp, ovj, 0o644)
	bin := filepath.Join(sub, "replay.test")
	pat := pkg
	if pat == "" {
		pat = "."
	}
	cmd := exec.Command("go", "test", "-c", "-vet=off", "-overlay", ovp, "-o", bin, pat)
	cmd.Dir = r.dir
	cmd.Env = append(os.Environ(), "GOFLAGS=-mod=mod", "GOPROXY=off", "GOSUMDB=off", "GOTOOLCHAIN=local")
	out, err := cmd.CombinedOutput()
	if err != nil {
		return "", fmt.Errorf("building replay binary: %v\n%s", err, out)
	}
	r.bins[key] = bin
	return bin, nil
}

// run executes one replay; it returns the output and whether the expected
// event (violation label / panic) was observed.
func (r *replayer) run(rf *ReplayFile, vecPath string) (bool, string, error) {
	bin, err := r.binary(rf.Pkg, rf.Files)
	if err != nil {
		return false, "", err
	}
	tries := rf.Tries
	if tries < 1 {
		tries = 1
	}
	var out []byte
	for i := 0; i < tries; i++ {
		limit := "120s"
		if rf.Kind == "hang" {
			limit = "20s" // a clean replay takes well under a second
		}
		cmd := exec.Command(bin, "-test.run", "^TestSVReplay$", "-test.v", "-test.timeout", limit)
		cmd.Dir = pkgDir(&loadSpec{Dir: r.dir, Pkg: rf.Pkg})
		cmd.Env = append(os.Environ(), "SV_REPLAY="+vecPath, "SV_FN="+rf.Fn)
		out, _ = cmd.CombinedOutput()
		if observed(rf, string(out)) {
			return true, string(out), nil
		}
	}
	return false, string(out), nil
}

func observed(rf *ReplayFile, out string) bool {
	switch rf.Kind {
	case "assert":
		// the violation must be printed before any assumption fails: the model only
		// covers the inputs up to the violating assertion, later inputs default to 0
		for _, l := range strings.Split(out, "\n") {
			if strings.Contains(l, "SV-ASSUME-FAILED") {
				return false
			}
			if strings.TrimSpace(l) == "SV-VIOLATION "+rf.Label {
				return true
			}
		}
		return false
	case "panic":
		if strings.Contains(out, "SV-ASSUME-FAILED") {
			return false
		}
		return strings.Contains(out, "SV-PANIC") || strings.Contains(out, "panic:") || strings.Contains(out, "fatal error:")
	case "hang":
		// the real code, run natively on the witness, is still running when the
		// wall-clock limit expires (and it had not left the assumed input space)
		if strings.Contains(out, "SV-ASSUME-FAILED") || strings.Contains(out, "SV-DONE") {
			return false
		}
		return strings.Contains(out, "panic: test timed out")
	case "clean":
		if strings.Contains(out, "SV-ASSUME-FAILED") {
			return false
		}
		return !strings.Contains(out, "SV-VIOLATION") && !strings.Contains(out, "SV-PANIC") && strings.Contains(out, "SV-DONE")
	}
	return false
}

// ---------------------------------------------------------------- check

func tierOK(rs RunSpec, tier string) bool {
	if len(rs.Tiers) == 0 {
		return true
	}
	for _, t := range rs.Tiers {
		if t == tier {
			return true
		}
	}
	return false
}

func checkMain(args []string) {
	if len(args) < 2 {
		fatal("usage: symgo check <ID> <quick|thorough> [-only run] [-v]")
	}
	id, tier := args[0], args[1]
	if tier == "--replay" {
		replayMain(args[2:])
		return
	}
	only := ""
	probe := map[string]int{}
	probeWall := 0
	verbose := os.Getenv("SYMGO_VERBOSE") != ""
	for i := 2; i < len(args); i++ {
		switch args[i] {
		case "-only":
			only = args[i+1]
			i++
		case "-v":
			verbose = true
		case "-p": // probe: override a harness parameter (results go to scratch, not to evidence/)
			var k string
			var v int
			kv := strings.SplitN(args[i+1], "=", 2)
			if len(kv) == 2 {
				k = kv[0]
				fmt.Sscan(kv[1], &v)
				probe[k] = v
			}
			i++
		case "-maxwall":
			fmt.Sscan(args[i+1], &probeWall)
			i++
		}
	}
	if tier != "quick" && tier != "thorough" {
		fatal("tier must be quick or thorough")
	}
	t0 := time.Now()
	var spec PropSpec
	b, err := os.ReadFile(filepath.Join(verifRoot, "specs", id+".json"))
	if err != nil {
		fatal("%v", err)
	}
	if err := json.Unmarshal(b, &spec); err != nil {
		fatal("spec %s: %v", id, err)
	}
	findings := loadFindings()
	seed := 0
	fmt.Sscan(os.Getenv("VERIF_SEED"), &seed)
	dir := os.Getenv("SYMGO_REPO")
	if dir == "" {
		dir = "/repo"
	}
	rp := newReplayer(dir)
	defer rp.cleanup()
	// a scratch evaluation (SYMGO_REPO names another tree than /repo) must not
	// touch the evidence and replays of the real tree
	outRoot := verifRoot
	if dir != "/repo" {
		outRoot = filepath.Join(verifRoot, "replays", "_scratch", filepath.Base(dir))
	} else if len(probe) > 0 || probeWall > 0 {
		outRoot = filepath.Join(verifRoot, "replays", "_scratch", fmt.Sprintf("probe-%d", os.Getpid()))
	}
	replayDir := filepath.Join(outRoot, "replays", id)
	os.RemoveAll(replayDir)
	os.MkdirAll(replayDir, 0o755)

	type runOut struct {
		spec RunSpec
		res  *ExploreResult
	}
	var outs []runOut
	exit := 0
	inconclusive := func(f string, a ...interface{}) {
		fmt.Printf("INCONCLUSIVE property=%s "+f+"\n", append([]interface{}{id}, a...)...)
		if exit == 0 {
			exit = 2
		}
	}
	violations := 0
	validated := 0
	knownSeen := map[string]int{}
	var samples []interface{}
	funcs := map[string]bool{}
	stubs := map[string]bool{}
	var bounds []string
	tot := ExploreResult{Reach: map[string]int{}}
	xdis, xchecked := 0, 0
	// one worker pool per package, loaded with the union of the harness files
	allFiles := map[string][]string{}
	for _, rs := range spec.Runs {
		pk := rs.Pkg
		if pk == "" {
			pk = "."
		}
		for _, f := range rs.Files {
			dup := false
			for _, g := range allFiles[pk] {
				dup = dup || g == f
			}
			if !dup {
				allFiles[pk] = append(allFiles[pk], f)
			}
		}
	}
	pools := map[string]*pool{}
	defer func() {
		for _, pl := range pools {
			pl.close()
		}
	}()
	for _, rs := range spec.Runs {
		if !tierOK(rs, tier) || only != "" && only != rs.Name {
			continue
		}
		params := rs.Quick
		if tier == "thorough" && rs.Thorough != nil {
			params = rs.Thorough
		}
		if params == nil {
			params = map[string]int{}
		}
		if len(probe) > 0 {
			np := map[string]int{}
			for k, v := range params {
				np[k] = v
			}
			for k, v := range probe {
				np[k] = v
			}
			params = np
		}
		ls := &loadSpec{Dir: dir, Pkg: rs.Pkg, Files: rs.Files, Fn: rs.Fn, Params: params, Overrides: rs.Overrides,
			TimeoutMS: rs.TimeoutMS, MaxSteps: rs.MaxSteps, HangViol: rs.HangViol, XCheck: tier == "thorough", Solver: rs.Solver}
		if ls.Pkg == "" {
			ls.Pkg = "."
		}
		if ls.TimeoutMS == 0 {
			// per-query limit of the incremental solver; a query it gives up on is
			// retried one-shot (fresh process, full preprocessing) with >= 30 s
			ls.TimeoutMS = 8000
			if tier == "thorough" {
				ls.TimeoutMS = 60000
			}
		}
		if ls.MaxSteps == 0 {
			ls.MaxSteps = 50000000
		}
		workers := 16
		if rs.Workers > 0 {
			workers = rs.Workers
		}
		pkey := ls.Pkg + "|" + strings.Join(allFiles[ls.Pkg], ",")
		pl := pools[pkey]
		if pl == nil {
			pl = newPool(&loadSpec{Dir: dir, Pkg: ls.Pkg, Files: allFiles[ls.Pkg]})
			pools[pkey] = pl
		}
		maxWall := 1500 * time.Second
		if tier == "thorough" {
			maxWall = 3 * time.Hour
		}
		if rs.MaxWallS > 0 {
			maxWall = time.Duration(rs.MaxWallS) * time.Second
		}
		if probeWall > 0 {
			maxWall = time.Duration(probeWall) * time.Second
		}
		res := explore(pl, ls, exploreOpts{Workers: workers, Samples: 3, MaxViol: 4, Verbose: verbose, MaxWall: maxWall})
		outs = append(outs, runOut{rs, res})
		fmt.Printf("run %s/%s: paths=%d pruned=%d aborted=%d decisions=%d queries=%d (sat %d unsat %d unknown %d) asserts=%d solver=%.1fs wall=%.1fs violating_paths=%d\n",
			id, rs.Name, res.Paths, res.Pruned, res.Aborted, res.Decisions, res.Queries, res.Sat, res.Unsat, res.Unknown, res.Asserts, res.SolverS, res.WallS, res.ViolPaths)
		bounds = append(bounds, fmt.Sprintf("%s: %s params=%v", rs.Name, rs.Bound, params))
		tot.Paths += res.Paths
		tot.Pruned += res.Pruned
		tot.Aborted += res.Aborted
		tot.Decisions += res.Decisions
		tot.Queries += res.Queries
		tot.Sat += res.Sat
		tot.Unsat += res.Unsat
		tot.Unknown += res.Unknown
		tot.Asserts += res.Asserts
		tot.SolverS += res.SolverS
		tot.Steps += res.Steps
		for _, f := range res.Funcs {
			funcs[f] = true
		}
		for _, f := range res.Stubs {
			stubs[f] = true
		}
		for l, n := range res.Reach {
			tot.Reach[rs.Name+":"+l] += n
		}
		if !res.Complete {
			for why, n := range res.AbortWhy {
				w := why
				if len(w) > 400 {
					w = w[:400]
				}
				fmt.Printf("  abort x%d: %s\n", n, strings.ReplaceAll(w, "\n", " | "))
			}
			inconclusive("run=%s exploration incomplete: aborted=%d unknown=%d pending=%d", rs.Name, res.Aborted, res.Unknown, res.Pending)
		}
		for _, l := range rs.Reach {
			if res.Reach[l] == 0 && len(res.Violations) == 0 {
				inconclusive("run=%s vacuity: label %q reached on no feasible path", rs.Name, l)
			}
		}
		// translator validation: replay sampled clean paths natively
		for si, s := range res.Samples {
			samples = append(samples, map[string]interface{}{"run": rs.Name, "inputs": s.Model, "path_condition": s.PC})
			if si >= 2 {
				continue
			}
			rf := &ReplayFile{Property: id, Run: rs.Name, Pkg: ls.Pkg, Files: allFiles[ls.Pkg], Fn: rs.Fn, Kind: "clean", Inputs: s.Model, Params: params}
			vec := filepath.Join(rp.scratch, fmt.Sprintf("sample-%s-%d.json", rs.Name, si))
			jb, _ := json.Marshal(rf)
			os.WriteFile(vec, jb, 0o644)
			ok, out, err := rp.run(rf, vec)
			if err != nil {
				inconclusive("run=%s replay build failed: %v", rs.Name, err)
				break
			}
			if ok {
				validated++
			} else if len(res.Violations) == 0 {
				inconclusive("run=%s translator mismatch: a path the engine found clean does not run clean natively (inputs %v)\n%s", rs.Name, s.Model, tail(out, 30))
			}
		}
		// violations: group by label(+msg class), replay natively
		type group struct {
			label string
			vs    []interp.Violation
			n     int
		}
		groups := map[string]*group{}
		var order []string
		for _, v := range res.Violations {
			k := v.Label
			if v.Kind == "panic" {
				k = v.Label + " " + v.Msg
			}
			g := groups[k]
			if g == nil {
				g = &group{label: k}
				groups[k] = g
				order = append(order, k)
			}
			g.n++
			if v.Model != nil {
				g.vs = append(g.vs, v)
			}
		}
		for gi, k := range order {
			g := groups[k]
			var known *Finding
			for fi := range findings.Known {
				if len(g.vs) > 0 && findings.Known[fi].matches(id, rs.Name, g.vs[0]) {
					known = &findings.Known[fi]
					break
				}
			}
			reproduced := false
			var rpath string
			var lastOut string
			for vi, v := range g.vs {
				if vi >= 3 {
					break
				}
				rf := &ReplayFile{Property: id, Run: rs.Name, Pkg: ls.Pkg, Files: allFiles[ls.Pkg], Fn: rs.Fn, Label: v.Label, Kind: v.Kind, Msg: v.Msg,
					Inputs: v.Model, Params: params, Tries: rs.Tries}
				rpath = filepath.Join(replayDir, fmt.Sprintf("%s-%d-%d.json", rs.Name, gi, vi))
				jb, _ := json.MarshalIndent(rf, "", " ")
				os.WriteFile(rpath, jb, 0o644)
				ok, out, err := rp.run(rf, rpath)
				if err != nil {
					inconclusive("run=%s replay build failed: %v", rs.Name, err)
					break
				}
				lastOut = out
				if ok {
					reproduced = true
					validated++
					break
				}
			}
			if !reproduced && rs.EngineConfirm != "" && len(g.vs) > 0 {
				if m, _ := regexp.MatchString(rs.EngineConfirm, g.vs[0].Label); m {
					fl := *ls
					fl.Fixed = g.vs[0].Choices
					if len(fl.Fixed) == 0 {
						fl.Fixed = g.vs[0].Model
					}
					r2 := explore(pl, &fl, exploreOpts{Workers: 4, MaxPaths: 400, Samples: 0, MaxViol: 50})
					for _, v2 := range r2.Violations {
						if v2.Label == g.vs[0].Label {
							reproduced = true
							validated++
							fmt.Printf("  witness for %q confirmed by a concrete engine run (observable is engine-only ghost state)\n", k)
							break
						}
					}
				}
			}
			switch {
			case reproduced && known != nil:
				key := known.Label + "|" + known.Run + "|" + known.Msg
				if knownSeen[key] == 0 {
					fmt.Printf("KNOWN-FINDING: property=%s %s (run %s, label %q, %d violating path(s), replay %s)\n", id, known.What, rs.Name, k, g.n, rpath)
				}
				knownSeen[key] += g.n
			case reproduced:
				fmt.Printf("VIOLATION property=%s replay=%s\n", id, rpath)
				fmt.Printf("  run=%s label=%q violating_paths=%d\n", rs.Name, k, g.n)
				violations++
				exit = 1
			default:
				inconclusive("run=%s label=%q: solver model does not reproduce natively (engine/stub defect, not a finding); replay=%s\n%s", rs.Name, k, rpath, tail(lastOut, 25))
			}
		}
		// cross-check assertion queries with other solvers (thorough tier)
		if tier == "thorough" && len(res.Scripts) > 0 {
			c, d := crossCheck(res.Scripts, rp.scratch)
			xchecked += c
			xdis += d
			if d > 0 {
				inconclusive("run=%s cross-solver disagreement on %d of %d assertion queries", rs.Name, d, c)
			}
		}
	}
	if len(outs) == 0 {
		fatal("no runs for %s/%s", id, tier)
	}
	if exit == 1 && false {
		// a confirmed violation dominates inconclusive parts
	}
	// evidence
	fl, sl := []string{}, []string{}
	for f := range funcs {
		fl = append(fl, f)
	}
	sort.Strings(fl)
	for f := range stubs {
		sl = append(sl, f)
	}
	sort.Strings(sl)
	if len(samples) == 0 {
		samples = append(samples, map[string]interface{}{"note": "no completed path produced a sample"})
	}
	if len(samples) > 12 {
		samples = samples[:12]
	}
	kf := []string{}
	for k, n := range knownSeen {
		kf = append(kf, fmt.Sprintf("%s x%d", k, n))
	}
	sort.Strings(kf)
	perRun := []interface{}{}
	for _, o := range outs {
		perRun = append(perRun, map[string]interface{}{"run": o.spec.Name, "fn": o.spec.Fn, "params": o.res.Params, "paths": o.res.Paths, "pruned_by_assumption": o.res.Pruned,
			"aborted": o.res.Aborted, "decisions": o.res.Decisions, "queries": o.res.Queries, "unsat": o.res.Unsat, "sat": o.res.Sat, "unknown": o.res.Unknown,
			"assertions_discharged": o.res.Asserts, "solver_s": round1(o.res.SolverS), "wall_s": round1(o.res.WallS), "violating_paths": o.res.ViolPaths, "reach": o.res.Reach,
			"complete": o.res.Complete, "bound": o.spec.Bound, "overrides": o.spec.Overrides})
	}
	ev := map[string]interface{}{
		"property_id": id,
		"tier":        tier,
		"seed":        seed,
		"level":       "model_checking",
		"coverage": map[string]interface{}{
			"states":                        max(tot.Paths, 0),
			"transitions":                   tot.Decisions,
			"traces_validated_against_impl": validated,
			"samples":                       samples,
			"exhaustive":                    exit != 2,
			"explanation":                   "states = feasible symbolic paths completed (each covers every input satisfying its path condition); transitions = branch/case decisions settled by the SMT solver; all paths within the stated bounds were explored unless 'complete' is false",
			"functions_encoded":             fl,
			"stubs_hit":                     sl,
			"bounds":                        bounds,
			"queries":                       tot.Queries,
			"unsat":                         tot.Unsat,
			"sat":                           tot.Sat,
			"unknown":                       tot.Unknown,
			"assertions_discharged":         tot.Asserts,
			"solver_time_s":                 round1(tot.SolverS),
			"paths_pruned_by_assumption":    tot.Pruned,
			"paths_aborted":                 tot.Aborted,
			"reach":                         tot.Reach,
			"known_findings_seen":           kf,
			"cross_solver":                  map[string]int{"queries_rechecked": xchecked, "disagreements": xdis},
			"runs":                          perRun,
			"solver":                        "z3 4.8.12 (z3 -in, one process per worker); thorough: assertion queries re-discharged on z3 5.1.0 and cvc5 1.0",
			"encoding":                      "regenerated from " + dir + " working tree by go/packages + go/ssa on this run",
		},
		"assumptions": append(append([]string{}, spec.Assumptions...), prefixAll("outside the claim: ", spec.Outside)...),
		"wall_s":      round1(time.Since(t0).Seconds()),
		"violations":  violations,
	}
	os.MkdirAll(filepath.Join(outRoot, "evidence"), 0o755)
	eb, _ := json.MarshalIndent(ev, "", " ")
	if err := os.WriteFile(filepath.Join(outRoot, "evidence", id+".json"), eb, 0o644); err != nil {
		fatal("%v", err)
	}
	switch exit {
	case 0:
		fmt.Printf("OK property=%s tier=%s paths=%d queries=%d wall=%.0fs\n", id, tier, tot.Paths, tot.Queries, time.Since(t0).Seconds())
	case 1:
		fmt.Printf("FAIL property=%s: %d unlisted violation group(s) reproduced natively\n", id, violations)
	}
	rp.cleanup()
	for _, pl := range pools {
		pl.close()
	}
	os.Exit(exit)
}

func prefixAll(p string, l []string) []string {
	var r []string
	for _, s := range l {
		r = append(r, p+s)
	}
	return r
}

func round1(f float64) float64 { return float64(int(f*10+0.5)) / 10 }

func tail(s string, n int) string {
	l := strings.Split(strings.TrimRight(s, "\n"), "\n")
	if len(l) > n {
		l = l[len(l)-n:]
	}
	return "    | " + strings.Join(l, "\n    | ")
}

func replayMain(args []string) {
	if len(args) < 1 {
		fatal("usage: symgo replay <file>")
	}
	b, err := os.ReadFile(args[0])
	if err != nil {
		fatal("%v", err)
	}
	var rf ReplayFile
	if err := json.Unmarshal(b, &rf); err != nil {
		fatal("%v", err)
	}
	dir := os.Getenv("SYMGO_REPO")
	if dir == "" {
		dir = "/repo"
	}
	rp := newReplayer(dir)
	defer rp.cleanup()
	ok, out, err := rp.run(&rf, args[0])
	if err != nil {
		fatal("%v", err)
	}
	fmt.Print(out)
	if ok {
		fmt.Printf("VIOLATION property=%s replay=%s\n", rf.Property, args[0])
		rp.cleanup()
		os.Exit(1)
	}
	fmt.Println("not reproduced")
}

// crossCheck re-discharges recorded assertion queries on z3-new and cvc5.
func crossCheck(scripts []string, scratch string) (checked, disagreements int) {
	// limit the volume: at most 120 scripts per run, evenly spread; each is
	// re-decided by z3 5.1.0 and cvc5 under a 20 s limit, 12 at a time. A solver
	// that gives up (unknown / timeout) neither confirms nor contradicts.
	step := 1
	if len(scripts) > 120 {
		step = len(scripts) / 120
	}
	type job struct {
		i int
		s string
	}
	jobs := make(chan job)
	var mu sync.Mutex
	var wg sync.WaitGroup
	for w := 0; w < 12; w++ {
		wg.Add(1)
		go func() {
			defer wg.Done()
			for jb := range jobs {
				s := jb.s
				j := strings.LastIndex(s, "; expect ")
				if j < 0 {
					continue
				}
				want := strings.TrimSpace(s[j+len("; expect "):])
				p := filepath.Join(scratch, fmt.Sprintf("x%d.smt2", jb.i))
				body := "(set-option :produce-models true)\n" + stripPushPop(s[:j])
				os.WriteFile(p, []byte(body), 0o644)
				for _, sv := range [][]string{{"z3-new", "-T:20", p}, {"cvc5", "--tlimit=20000", p}} {
					if _, err := exec.LookPath(sv[0]); err != nil {
						continue
					}
					out, _ := exec.Command(sv[0], sv[1:]...).CombinedOutput()
					got := ""
					for _, l := range strings.Fields(string(out)) {
						if l == "sat" || l == "unsat" || l == "unknown" {
							got = l
						}
					}
					if strings.Contains(string(out), "(error") {
						got = "error"
					}
					mu.Lock()
					if got == "sat" || got == "unsat" {
						checked++
						if got != want {
							disagreements++
							fmt.Printf("  cross-check: %s says %s, z3 said %s (%s)\n", sv[0], got, want, p)
						}
					}
					mu.Unlock()
				}
				os.Remove(p)
			}
		}()
	}
	for i := 0; i < len(scripts); i += step {
		jobs <- job{i, scripts[i]}
	}
	close(jobs)
	wg.Wait()
	return
}

// stripPushPop keeps only the last check-sat of a recorded script: it drops
// balanced push...pop blocks that were closed before the end.
func stripPushPop(s string) string {
	lines := strings.Split(s, "\n")
	var out []string
	var marks []int
	for _, l := range lines {
		switch strings.TrimSpace(l) {
		case "(push)":
			marks = append(marks, len(out))
			continue
		case "(pop)":
			if len(marks) > 0 {
				out = out[:marks[len(marks)-1]]
				marks = marks[:len(marks)-1]
			}
			continue
		case "(check-sat)":
			continue
		}
		if strings.HasPrefix(strings.TrimSpace(l), "(set-option :timeout") || strings.TrimSpace(l) == "(reset)" {
			continue
		}
		out = append(out, l)
	}
	return strings.Join(out, "\n") + "\n(check-sat)\n"
}
