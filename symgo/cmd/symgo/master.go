package main

import (
	"bufio"
	"encoding/json"
	"flag"
	"fmt"
	"io"
	"os"
	"os/exec"
	"sort"
	"time"

	interp "symgo"
)

// ExploreResult aggregates one complete exploration of one harness function.
type ExploreResult struct {
	Fn         string             `json:"fn"`
	Params     map[string]int     `json:"params"`
	Paths      int                `json:"paths"`      // feasible paths completed (outcome ok)
	Pruned     int                `json:"pruned"`     // paths ended by an assumption
	Aborted    int                `json:"aborted"`    // inconclusive paths
	AbortWhy   map[string]int     `json:"abort_why,omitempty"`
	Pending    int                `json:"pending"`    // prefixes never run (path cap / time cap)
	Decisions  int                `json:"decisions"`  // solver-decided branch/case decisions
	Queries    int                `json:"queries"`
	Sat        int                `json:"sat"`
	Unsat      int                `json:"unsat"`
	Unknown    int                `json:"unknown"`
	Asserts    int                `json:"asserts"`
	SolverS    float64            `json:"solver_s"`
	WallS      float64            `json:"wall_s"`
	Steps      int64              `json:"steps"`
	Funcs      []string           `json:"funcs"`
	Stubs      []string           `json:"stubs"`
	Reach      map[string]int     `json:"reach"`
	Violations []interp.Violation `json:"violations,omitempty"`
	ViolPaths  int                `json:"viol_paths"`
	Samples    []interp.Sample    `json:"samples,omitempty"`
	Notes      map[string]int     `json:"notes,omitempty"`
	Scripts    []string           `json:"-"`
	Complete   bool               `json:"complete"`
	Workers    int                `json:"workers"`
}

type wproc struct {
	cmd  *exec.Cmd
	in   io.WriteCloser
	out  *bufio.Reader
	busy bool
	id   int
}

type wmsg struct {
	w   *wproc
	res *interp.PathResult
	err error
}

func startWorker(ls *loadSpec, id int, ch chan wmsg) (*wproc, error) {
	self, _ := os.Executable()
	cmd := exec.Command(self, append([]string{"worker"}, ls.args()...)...)
	cmd.Env = append(os.Environ(), "GOMAXPROCS="+envOr("SYMGO_WPROCS", "2"), "GOGC="+envOr("SYMGO_WGOGC", "100"))
	cmd.Stderr = os.Stderr
	in, _ := cmd.StdinPipe()
	outp, _ := cmd.StdoutPipe()
	if err := cmd.Start(); err != nil {
		return nil, err
	}
	w := &wproc{cmd: cmd, in: in, out: bufio.NewReaderSize(outp, 1<<20), id: id, busy: true}
	go func() {
		// first line: ready
		line, err := w.out.ReadBytes('\n')
		if err != nil {
			ch <- wmsg{w: w, err: fmt.Errorf("worker %d failed to start: %v", id, err)}
			return
		}
		_ = line
		ch <- wmsg{w: w}
		for {
			line, err := w.out.ReadBytes('\n')
			if err != nil {
				ch <- wmsg{w: w, err: fmt.Errorf("worker %d died: %v", id, err)}
				return
			}
			var r interp.PathResult
			if e := json.Unmarshal(line, &r); e != nil {
				ch <- wmsg{w: w, err: fmt.Errorf("worker %d: bad result: %v: %.200s", id, e, line)}
				return
			}
			ch <- wmsg{w: w, res: &r}
		}
	}()
	return w, nil
}

type exploreOpts struct {
	Workers  int
	MaxPaths int
	MaxWall  time.Duration
	Samples  int
	MaxViol  int // stop collecting models after this many violating paths per label
	Verbose  bool
}

// pool is a set of worker processes that have loaded one package together
// with a set of harness files; it serves any harness function in them.
type pool struct {
	ls       *loadSpec
	workers  []*wproc
	ch       chan wmsg
	starting int
}

func newPool(ls *loadSpec) *pool {
	return &pool{ls: ls, ch: make(chan wmsg, 256)}
}

func (p *pool) spawn() {
	w, err := startWorker(p.ls, len(p.workers), p.ch)
	if err != nil {
		fatal("%v", err)
	}
	p.workers = append(p.workers, w)
	p.starting++
}

func (p *pool) close() {
	for _, w := range p.workers {
		w.in.Write([]byte("{\"quit\":true}\n"))
		w.in.Close()
	}
	for _, w := range p.workers {
		w.cmd.Wait()
	}
	p.workers = nil
}

func explore(p *pool, ls *loadSpec, o exploreOpts) *ExploreResult {
	t0 := time.Now()
	res := &ExploreResult{Fn: ls.Fn, Params: ls.Params, Reach: map[string]int{}, AbortWhy: map[string]int{}, Notes: map[string]int{}}
	if len(p.workers) == 0 {
		p.spawn()
	}
	queue := [][]interp.Dec{{}}
	inflight := 0
	nextID := 0
	samples := 0
	funcs := map[string]bool{}
	stubs := map[string]bool{}
	perLabel := map[string]int{}
	capped := false
	done := 0
	var pathWall float64
	send := func(w *wproc, prefix []interp.Dec) {
		job := interp.Job{ID: nextID, Prefix: prefix, Fn: ls.Fn, Params: ls.Params, Overrides: ls.Overrides,
			TimeoutMS: ls.TimeoutMS, MaxSteps: ls.MaxSteps, HangViol: ls.HangViol, XCheck: ls.XCheck, Fixed: ls.Fixed, Solver: ls.Solver}
		nextID++
		if samples < o.Samples {
			job.Sample = true
			samples++
		}
		b, _ := json.Marshal(job)
		w.busy = true
		inflight++
		w.in.Write(append(b, '\n'))
	}
	dispatch := func() {
		for _, w := range p.workers {
			if len(queue) == 0 {
				return
			}
			if !w.busy {
				if o.MaxPaths > 0 && nextID >= o.MaxPaths || o.MaxWall > 0 && time.Since(t0) > o.MaxWall || res.ViolPaths > 4000 {
					// (a flood of violating paths: the verdict is settled, the rest of the
					// exploration is reported as incomplete rather than run for hours)
					capped = true
					return
				}
				// LIFO: depth first keeps the queue small
				pr := queue[len(queue)-1]
				queue = queue[:len(queue)-1]
				send(w, pr)
			}
		}
	}
	lastLog := time.Now()
	lastSpawn := time.Now()
	for {
		dispatch()
		// all workers busy and work waiting for a while: add a worker
		if !capped && len(p.workers) < o.Workers && p.starting < 3 && len(queue) > p.starting && time.Since(t0) > 4*time.Second && time.Since(lastSpawn) > 1500*time.Millisecond {
			p.spawn()
			lastSpawn = time.Now()
		}
		// grow the pool while the backlog is worth a worker start-up (~4 s of CPU)
		if !capped && len(p.workers) < o.Workers && p.starting < 6 && len(queue) > p.starting {
			avg := 0.3
			if done > 0 {
				avg = pathWall / float64(done)
			}
			backlog := float64(len(queue)) * avg / float64(len(p.workers))
			if backlog > 1.0 {
				n := int(backlog / 1.0)
				for i := 0; i < n && len(p.workers) < o.Workers && p.starting < 6; i++ {
					p.spawn()
				}
			}
		}
		if inflight == 0 && (len(queue) == 0 || capped) {
			break
		}
		m := <-p.ch
		if m.err != nil {
			fatal("%v", m.err)
		}
		if m.res == nil { // ready
			m.w.busy = false
			p.starting--
			continue
		}
		m.w.busy = false
		inflight--
		done++
		r := m.res
		pathWall += float64(r.WallNS) / 1e9
		switch r.Outcome {
		case "ok":
			res.Paths++
		case "pruned":
			res.Pruned++
		default:
			res.Aborted++
			why := r.Why
			if len(why) > 300 && !o.Verbose {
				why = why[:300]
			}
			res.AbortWhy[why]++
		}
		queue = append(queue, r.Alts...)
		res.Decisions += r.Decisions
		res.Queries += r.Queries
		res.Sat += r.Sat
		res.Unsat += r.Unsat
		res.Unknown += r.Unknown
		res.Asserts += r.Asserts
		res.SolverS += float64(r.SolverNS) / 1e9
		res.Steps += r.Steps
		for _, f := range r.Funcs {
			funcs[f] = true
		}
		for _, f := range r.Stubs {
			stubs[f] = true
		}
		for _, l := range r.Reach {
			res.Reach[l]++
		}
		for _, n := range r.Notes {
			res.Notes[n]++
		}
		if len(r.Violations) > 0 {
			res.ViolPaths++
		}
		for _, v := range r.Violations {
			k := v.Label + "|" + v.Msg
			perLabel[k]++
			if perLabel[k] > o.MaxViol {
				v.Model = nil
			}
			res.Violations = append(res.Violations, v)
		}
		if r.Sample != nil {
			res.Samples = append(res.Samples, *r.Sample)
		}
		res.Scripts = append(res.Scripts, r.Scripts...)
		if o.Verbose && time.Since(lastLog) > 10*time.Second {
			lastLog = time.Now()
			fmt.Fprintf(os.Stderr, "  [%s] paths=%d pruned=%d aborted=%d queue=%d workers=%d viol=%d %.0fs\n", ls.Fn, res.Paths, res.Pruned, res.Aborted, len(queue), len(p.workers), res.ViolPaths, time.Since(t0).Seconds())
		}
	}
	res.Pending = len(queue)
	for f := range funcs {
		res.Funcs = append(res.Funcs, f)
	}
	sort.Strings(res.Funcs)
	for f := range stubs {
		res.Stubs = append(res.Stubs, f)
	}
	sort.Strings(res.Stubs)
	res.Workers = len(p.workers)
	res.WallS = time.Since(t0).Seconds()
	res.Complete = res.Pending == 0 && res.Aborted == 0 && res.Unknown == 0
	return res
}

func exploreMain(args []string) {
	fs := flag.NewFlagSet("explore", flag.ExitOnError)
	get := loadFlags(fs)
	workers := fs.Int("workers", 16, "")
	maxp := fs.Int("maxpaths", 0, "")
	maxw := fs.Int("maxwall", 600, "stop after this many seconds (result is then incomplete)")
	verbose := fs.Bool("v", true, "")
	fs.Parse(args)
	ls := get()
	pl := newPool(ls)
	defer pl.close()
	r := explore(pl, ls, exploreOpts{Workers: *workers, MaxPaths: *maxp, MaxWall: time.Duration(*maxw) * time.Second, Samples: 3, MaxViol: 3, Verbose: *verbose})
	seen := map[string]int{}
	for _, v := range r.Violations {
		seen[v.Label+" "+v.Msg]++
		if v.Model != nil && seen[v.Label+" "+v.Msg] <= 2 {
			b, _ := json.Marshal(v)
			fmt.Println("VIOL", string(b))
		}
	}
	for k, n := range seen {
		fmt.Printf("VIOLCOUNT %d %s\n", n, k)
	}
	for k, n := range r.AbortWhy {
		fmt.Printf("ABORT x%d: %s\n", n, k)
	}
	r.Violations = nil
	b, _ := json.MarshalIndent(r, "", " ")
	fmt.Println(string(b))
}

func envOr(k, d string) string {
	if v := os.Getenv(k); v != "" {
		return v
	}
	return d
}
