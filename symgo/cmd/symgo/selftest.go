package main

import "fmt"

func selftestMain(args []string) {
	fmt.Println("selftest: TODO")
}
