package main

import (
	"encoding/json"
	"fmt"
	"os"
	"path/filepath"
	"sort"
	"strings"
)

// selftestMain is the translator validation: a harness made of concrete
// computations over the standard library and go-mail kernels is executed once
// by the symbolic interpreter and once natively; every svNote line must agree.
func selftestMain(args []string) {
	dir := os.Getenv("SYMGO_REPO")
	if dir == "" {
		dir = "/repo"
	}
	files := []string{"harness/mail/common.go", "harness/common/smtpsrv.go", "harness/mail/c03.go", "harness/selftest/selftest.go"}
	ls := &loadSpec{Dir: dir, Pkg: ".", Files: files, Fn: "HarnessSelftest", Params: map[string]int{}, TimeoutMS: 20000, MaxSteps: 200000000}
	pl := newPool(ls)
	res := explore(pl, ls, exploreOpts{Workers: 1, Samples: 0, MaxViol: 5})
	pl.close()
	if !res.Complete || res.Paths != 1 || len(res.Violations) > 0 {
		fmt.Printf("selftest: engine run failed: paths=%d aborted=%d %v violations=%d\n", res.Paths, res.Aborted, res.AbortWhy, len(res.Violations))
		os.Exit(2)
	}
	var eng []string
	for n, c := range res.Notes {
		for i := 0; i < c; i++ {
			eng = append(eng, n)
		}
	}
	sort.Strings(eng)
	rp := newReplayer(dir)
	defer rp.cleanup()
	rf := &ReplayFile{Property: "selftest", Run: "selftest", Pkg: ".", Files: files, Fn: "HarnessSelftest", Kind: "clean", Inputs: map[string]uint64{}, Params: map[string]int{}}
	vec := filepath.Join(rp.scratch, "selftest.json")
	jb, _ := json.Marshal(rf)
	os.WriteFile(vec, jb, 0o644)
	ok, out, err := rp.run(rf, vec)
	if err != nil || !ok {
		fmt.Printf("selftest: native run failed: %v\n%s\n", err, tail(out, 30))
		rp.cleanup()
		os.Exit(2)
	}
	var nat []string
	for _, l := range strings.Split(out, "\n") {
		if strings.HasPrefix(l, "SV-NOTE ") {
			nat = append(nat, strings.TrimPrefix(l, "SV-NOTE "))
		}
	}
	sort.Strings(nat)
	bad := 0
	em := map[string]string{}
	for _, l := range eng {
		if i := strings.IndexByte(l, '='); i > 0 {
			em[l[:i]] = l[i+1:]
		}
	}
	for _, l := range nat {
		i := strings.IndexByte(l, '=')
		if i <= 0 {
			continue
		}
		if ev, ok := em[l[:i]]; !ok || ev != l[i+1:] {
			bad++
			nv := l[i+1:]
			d := 0
			for d < len(nv) && d < len(ev) && nv[d] == ev[d] {
				d++
			}
			from := d - 120
			if from < 0 {
				from = 0
			}
			fmt.Printf("selftest MISMATCH %s (first difference at offset %d)\n  native: %.300s\n  engine: %.300s\n", l[:i], d, nv[from:], ev[from:])
		}
	}
	if len(nat) != len(eng) {
		bad++
		fmt.Printf("selftest: %d native notes vs %d engine notes\n", len(nat), len(eng))
	}
	if bad > 0 {
		rp.cleanup()
		os.Exit(2)
	}
	fmt.Printf("selftest: %d observations identical between the symbolic interpreter and the native build (%d instructions interpreted)\n", len(nat), res.Steps)
}
