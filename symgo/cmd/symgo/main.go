package main

import (
	"flag"
	"fmt"
	"go/types"
	"os"
	"path/filepath"
	"time"

	"golang.org/x/tools/go/packages"
	"golang.org/x/tools/go/ssa"
	"golang.org/x/tools/go/ssa/ssautil"

	interp "symgo"
)

func main() {
	dir := flag.String("dir", "/repo", "module dir")
	pkgpat := flag.String("pkg", ".", "package pattern")
	harness := flag.String("harness", "", "harness go file to overlay into pkg dir")
	fnname := flag.String("fn", "", "harness function")
	maxp := flag.Int("maxpaths", 100000, "")
	repl := flag.String("replace", "", "virtual=real source file replacement")
	flag.Parse()
	t0 := time.Now()
	cfg := &packages.Config{Mode: packages.LoadAllSyntax, Dir: *dir, Overlay: map[string][]byte{}}
	if *harness != "" {
		src, err := os.ReadFile(*harness)
		if err != nil {
			panic(err)
		}
		pd := *dir
		if *pkgpat != "." {
			pd = filepath.Join(*dir, *pkgpat)
		}
		cfg.Overlay[filepath.Join(pd, "zz_harness_verif.go")] = src
	}
	if *repl != "" {
		var v, r string
		for i := 0; i < len(*repl); i++ {
			if (*repl)[i] == '=' {
				v, r = (*repl)[:i], (*repl)[i+1:]
			}
		}
		src, err := os.ReadFile(r)
		if err != nil {
			panic(err)
		}
		cfg.Overlay[v] = src
	}
	pkgs, err := packages.Load(cfg, *pkgpat)
	if err != nil {
		panic(err)
	}
	if packages.PrintErrors(pkgs) > 0 {
		os.Exit(2)
	}
	prog, spkgs := ssautil.AllPackages(pkgs, ssa.InstantiateGenerics)
	mainpkg := spkgs[0]
	mainpkg.Build()
	fmt.Fprintf(os.Stderr, "load+build: %v\n", time.Since(t0))
	_ = prog
	fn := mainpkg.Func(*fnname)
	if fn == nil {
		panic("no harness fn " + *fnname)
	}
	rep := interp.Explore(mainpkg, fn, &types.StdSizes{WordSize: 8, MaxAlign: 8}, *maxp)
	for _, m := range rep.Msgs {
		fmt.Println(m)
	}
	fmt.Printf("paths=%d violations=%d aborted=%d queries=%d solver=%v wall=%v steps=%d\n", rep.Paths, rep.Violations, rep.Aborted, rep.Queries, rep.SolverTime, rep.Wall, rep.Steps)
}
