package main

// symgo: symbolic execution of go-mail's SSA with an SMT solver.
//
//	symgo worker  ...   one worker process (jobs on stdin, results on stdout)
//	symgo explore ...   master: explore one harness function with N workers
//	symgo check <ID> <quick|thorough>   run all harnesses of a property, replay
//	                    witnesses natively, write evidence, print verdict lines
//	symgo replay <file> re-run a recorded witness natively
//	symgo selftest      translator validation (concrete runs vs native)

import (
	"bufio"
	"encoding/json"
	"flag"
	"fmt"
	"os"
	"path/filepath"
	"sort"
	"strconv"
	"strings"

	"golang.org/x/tools/go/packages"
	"golang.org/x/tools/go/ssa"
	"golang.org/x/tools/go/ssa/ssautil"

	interp "symgo"
)

// verifRoot is the verification tree this binary belongs to: <root>/bin/symgo
// (SYMGO_VERIF overrides; /verif is the fallback).  Keeping it relative to the
// binary lets a snapshot of the tree run side by side with /verif.
var verifRoot = func() string {
	if v := os.Getenv("SYMGO_VERIF"); v != "" {
		return v
	}
	if self, err := os.Executable(); err == nil {
		if r := filepath.Dir(filepath.Dir(self)); r != "/" && r != "." {
			if _, err := os.Stat(filepath.Join(r, "specs")); err == nil {
				return r
			}
		}
	}
	return "/verif"
}()

type loadSpec struct {
	Dir       string            // module dir (/repo)
	Pkg       string            // package pattern relative to Dir ("." or "./smtp")
	Files     []string          // harness files (absolute or relative to /verif)
	Fn        string            // harness entry point
	Params    map[string]int    // tier parameters
	Overrides map[string]string // SSA function name -> harness function name
	TimeoutMS int
	MaxSteps  int64
	HangViol  bool
	XCheck    bool
	Fixed     map[string]uint64
	Solver    string
}

func absVerif(p string) string {
	if filepath.IsAbs(p) {
		return p
	}
	return filepath.Join(verifRoot, p)
}

func pkgDir(ls *loadSpec) string {
	if ls.Pkg == "." || ls.Pkg == "" {
		return ls.Dir
	}
	return filepath.Join(ls.Dir, ls.Pkg)
}

// pkgName finds the package clause of the target package directory.
func pkgName(dir string) string {
	ents, _ := os.ReadDir(dir)
	for _, e := range ents {
		n := e.Name()
		if strings.HasSuffix(n, ".go") && !strings.HasSuffix(n, "_test.go") {
			b, _ := os.ReadFile(filepath.Join(dir, n))
			for _, l := range strings.Split(string(b), "\n") {
				if strings.HasPrefix(l, "package ") {
					return strings.Fields(l)[1]
				}
			}
		}
	}
	panic("no package clause in " + dir)
}

// overlayFiles returns virtual path -> contents for the harness and sv files.
func overlayFiles(ls *loadSpec) map[string][]byte {
	ov := map[string][]byte{}
	pd := pkgDir(ls)
	name := pkgName(pd)
	tmpl, err := os.ReadFile(filepath.Join(verifRoot, "harness", "sv.go.tmpl"))
	if err != nil {
		panic(err)
	}
	ov[filepath.Join(pd, "zz_verif_sv.go")] = []byte(strings.Replace(string(tmpl), "PKGNAME", name, 1))
	for _, f := range ls.Files {
		src, err := os.ReadFile(absVerif(f))
		if err != nil {
			panic(err)
		}
		s := string(src)
		// harness files are written as "package PKGNAME" or with the real name
		s = strings.Replace(s, "package PKGNAME", "package "+name, 1)
		base := strings.TrimSuffix(filepath.Base(f), ".go")
		ov[filepath.Join(pd, "zz_verif_"+base+".go")] = []byte(s)
	}
	return ov
}

func load(ls *loadSpec) *ssa.Package {
	cfg := &packages.Config{Mode: packages.LoadAllSyntax, Dir: ls.Dir, Overlay: overlayFiles(ls),
		Env: append(os.Environ(), "GOFLAGS=-mod=mod", "GOPROXY=off", "GOSUMDB=off", "GOTOOLCHAIN=local")}
	pat := ls.Pkg
	if pat == "" {
		pat = "."
	}
	pkgs, err := packages.Load(cfg, pat)
	if err != nil {
		fatal("load: %v", err)
	}
	if packages.PrintErrors(pkgs) > 0 {
		fatal("load: package errors")
	}
	_, spkgs := ssautil.AllPackages(pkgs, ssa.InstantiateGenerics)
	mainpkg := spkgs[0]
	mainpkg.Build()
	return mainpkg
}

func fatal(f string, a ...interface{}) {
	fmt.Fprintf(os.Stderr, "symgo: "+f+"\n", a...)
	os.Exit(2)
}

func parseKV(s string) map[string]string {
	m := map[string]string{}
	if s == "" {
		return m
	}
	for _, kv := range strings.Split(s, ",") {
		i := strings.IndexByte(kv, '=')
		if i < 0 {
			fatal("bad k=v: %s", kv)
		}
		m[kv[:i]] = kv[i+1:]
	}
	return m
}

func loadFlags(fs *flag.FlagSet) func() *loadSpec {
	dir := fs.String("dir", "/repo", "module dir")
	pkg := fs.String("pkg", ".", "package (relative)")
	files := fs.String("files", "", "comma separated harness files")
	fn := fs.String("fn", "", "harness function")
	params := fs.String("params", "", "k=v,... integer parameters")
	ovr := fs.String("override", "", "ssaFunc=harnessFunc,...")
	to := fs.Int("timeout", 20000, "solver timeout per query (ms)")
	ms := fs.Int64("maxsteps", 20000000, "instruction budget per path")
	xc := fs.Bool("xcheck", false, "record assertion queries for cross-checking")
	fix := fs.String("fix", "", "JSON object of inputs forced to concrete values")
	solv := fs.String("solver", "", "solver binary (z3, z3-new)")
	return func() *loadSpec {
		ls := &loadSpec{Dir: *dir, Pkg: *pkg, Fn: *fn, TimeoutMS: *to, MaxSteps: *ms, XCheck: *xc,
			Params: map[string]int{}, Overrides: parseKV(*ovr)}
		if *files != "" {
			ls.Files = strings.Split(*files, ",")
		}
		ls.Solver = *solv
		if *fix != "" {
			if err := json.Unmarshal([]byte(*fix), &ls.Fixed); err != nil {
				fatal("-fix: %v", err)
			}
		}
		for k, v := range parseKV(*params) {
			n, err := strconv.Atoi(v)
			if err != nil {
				fatal("param %s: %v", k, err)
			}
			ls.Params[k] = n
		}
		return ls
	}
}

func (ls *loadSpec) args() []string {
	var ps, os_ []string
	for k, v := range ls.Params {
		ps = append(ps, fmt.Sprintf("%s=%d", k, v))
	}
	sort.Strings(ps)
	for k, v := range ls.Overrides {
		os_ = append(os_, k+"="+v)
	}
	sort.Strings(os_)
	_ = ps
	_ = os_
	return []string{"-dir", ls.Dir, "-pkg", ls.Pkg, "-files", strings.Join(ls.Files, ",")}
}

func workerMain(args []string) {
	fs := flag.NewFlagSet("worker", flag.ExitOnError)
	get := loadFlags(fs)
	fs.Parse(args)
	ls := get()
	mainpkg := load(ls)
	w := interp.NewWorker(mainpkg)
	defer w.Close()
	out := bufio.NewWriter(os.Stdout)
	enc := json.NewEncoder(out)
	fmt.Fprintln(out, `{"ready":true}`)
	out.Flush()
	in := bufio.NewReaderSize(os.Stdin, 1<<20)
	for {
		line, err := in.ReadBytes('\n')
		if len(line) > 0 {
			var job interp.Job
			if e := json.Unmarshal(line, &job); e != nil {
				fatal("bad job: %v", e)
			}
			if job.Quit {
				return
			}
			res := w.RunPath(job)
			enc.Encode(res)
			out.Flush()
		}
		if err != nil {
			return
		}
	}
}

func main() {
	if len(os.Args) < 2 {
		fatal("usage: symgo worker|explore|check|replay|selftest ...")
	}
	switch os.Args[1] {
	case "worker":
		workerMain(os.Args[2:])
	case "explore":
		exploreMain(os.Args[2:])
	case "check":
		checkMain(os.Args[2:])
	case "replay":
		replayMain(os.Args[2:])
	case "selftest":
		selftestMain(os.Args[2:])
	default:
		fatal("unknown subcommand %s", os.Args[1])
	}
}
