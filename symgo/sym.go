package interp

// Prototype: symbolic scalars + decision-prefix path exploration + z3 pipe.

import (
	"bufio"
	"fmt"
	"go/token"
	"go/types"
	"io"
	"os/exec"
	"strings"
	"time"
)

// sym is a symbolic scalar: an SMT-LIB term of sort Bool (w==0) or (_ BitVec w).
type sym struct {
	t      string
	w      int  // 0 = Bool
	signed bool // Go signedness of the static type it was produced at
}

func (s sym) String() string { return s.t }

type symstr []value // string with concrete length, bytes concrete(uint8) or sym

// ---------------------------------------------------------------- solver

type solver struct {
	cmd     *exec.Cmd
	in      io.WriteCloser
	bw      *bufio.Writer
	out     *bufio.Reader
	queries int
	dur     time.Duration
	decls   []string
	log     io.Writer
}

func newSolver() *solver {
	cmd := exec.Command("z3", "-in")
	in, _ := cmd.StdinPipe()
	outp, _ := cmd.StdoutPipe()
	if err := cmd.Start(); err != nil {
		panic(err)
	}
	s := &solver{cmd: cmd, in: in, out: bufio.NewReader(outp)}
	s.bw = bufio.NewWriterSize(in, 1<<16)
	s.send("(set-option :produce-models true)")
	return s
}

func (s *solver) send(l string) {
	if s.log != nil {
		fmt.Fprintln(s.log, l)
	}
	s.bw.WriteString(l)
	s.bw.WriteByte('\n')
}

func (s *solver) check() string {
	t0 := time.Now()
	s.send("(check-sat)")
	s.bw.Flush()
	line, err := s.out.ReadString('\n')
	if err != nil {
		panic("solver died: " + err.Error())
	}
	s.queries++
	s.dur += time.Since(t0)
	line = strings.TrimSpace(line)
	if strings.HasPrefix(line, "(error") {
		panic("solver error: " + line)
	}
	return line
}

func (s *solver) getValue(term string) string {
	s.send("(get-value (" + term + "))")
	s.bw.Flush()
	// read balanced s-expr
	depth := 0
	var sb strings.Builder
	for {
		r, _, err := s.out.ReadRune()
		if err != nil {
			panic(err)
		}
		sb.WriteRune(r)
		if r == '(' {
			depth++
		} else if r == ')' {
			depth--
			if depth == 0 {
				break
			}
		}
	}
	s.out.ReadString('\n')
	return strings.Join(strings.Fields(sb.String()), " ")
}

// ---------------------------------------------------------------- exploration

type abortPath struct{ why string }

type explorer struct {
	sol       *solver
	prefix    []int // decisions to replay
	pos       int
	taken     []int   // decisions taken this run
	alts      [][]int // pending prefixes
	nvars     int
	pc        []string // path condition terms (this run)
	paths     int
	violations []string
	maxDepth  int
	names     []string
	known     map[string]uint64
}

var ex *explorer

func (e *explorer) fresh(name string, w int, signed bool) sym {
	e.nvars++
	n := fmt.Sprintf("%s!%d", name, e.nvars)
	if w == 0 {
		e.sol.send(fmt.Sprintf("(declare-const |%s| Bool)", n))
	} else {
		e.sol.send(fmt.Sprintf("(declare-const |%s| (_ BitVec %d))", n, w))
	}
	e.names = append(e.names, "|"+n+"|")
	return sym{t: "|" + n + "|", w: w, signed: signed}
}

func (e *explorer) assume(c sym) {
	e.sol.send("(assert " + c.t + ")")
	e.pc = append(e.pc, c.t)
}

// decide picks a branch for a symbolic boolean condition.
func (e *explorer) decide(c sym) bool {
	if e.pos < len(e.prefix) {
		d := e.prefix[e.pos]
		e.pos++
		e.taken = append(e.taken, d)
		if d == 1 {
			e.assume(c)
		} else {
			e.assume(sym{t: "(not " + c.t + ")"})
		}
		return d == 1
	}
	// new node: check both sides
	e.sol.send("(push)")
	e.sol.send("(assert " + c.t + ")")
	rt := e.sol.check()
	e.sol.send("(pop)")
	rf := "sat"
	if rt != "unsat" {
		e.sol.send("(push)")
		e.sol.send("(assert (not " + c.t + "))")
		rf = e.sol.check()
		e.sol.send("(pop)")
	}
	if rt == "unknown" || rf == "unknown" {
		panic(abortPath{"solver unknown at branch"})
	}
	e.pos++
	switch {
	case rt == "sat" && rf == "sat":
		alt := append(append([]int{}, e.taken...), 0)
		e.alts = append(e.alts, alt)
		e.taken = append(e.taken, 1)
		e.assume(c)
		return true
	case rt == "sat":
		e.taken = append(e.taken, 1)
		e.assume(c)
		return true
	case rf == "sat":
		e.taken = append(e.taken, 0)
		e.assume(sym{t: "(not " + c.t + ")"})
		return false
	}
	panic(abortPath{"infeasible path"})
}

// concretize enumerates feasible values of a symbolic bitvector by forking.
func (e *explorer) concretize(s sym) int64 {
	// ask the solver for a model value, then fork on s==v.
	for {
		if e.sol.check() != "sat" {
			panic(abortPath{"infeasible at concretize"})
		}
		r := e.sol.getValue(s.t)
		i := strings.LastIndex(r, "#x")
		var v uint64
		if i >= 0 {
			fmt.Sscanf(r[i+2:strings.IndexAny(r[i:], ")")+i], "%x", &v)
		} else if i = strings.LastIndex(r, "#b"); i >= 0 {
			fmt.Sscanf(r[i+2:strings.IndexAny(r[i:], ")")+i], "%b", &v)
		} else {
			panic("cannot parse model value " + r)
		}
		eq := sym{t: fmt.Sprintf("(= %s %s)", s.t, bvlit(v, s.w))}
		if e.decide(eq) {
			e.known[s.t] = v
			if s.signed && s.w < 64 {
				sh := uint(64 - s.w)
				return int64(v<<sh) >> sh
			}
			return int64(v)
		}
	}
}

func bvlit(v uint64, w int) string {
	if w%4 == 0 {
		return fmt.Sprintf("#x%0*x", w/4, v&mask(w))
	}
	return fmt.Sprintf("#b%0*b", w, v&mask(w))
}

func mask(w int) uint64 {
	if w >= 64 {
		return ^uint64(0)
	}
	return (uint64(1) << uint(w)) - 1
}

// ---------------------------------------------------------------- lifting

func basicOf(t types.Type) *types.Basic {
	b, _ := t.Underlying().(*types.Basic)
	return b
}

func widthOf(t types.Type) (int, bool) {
	switch basicOf(t).Kind() {
	case types.Bool, types.UntypedBool:
		return 0, false
	case types.Int, types.Int64, types.UntypedInt:
		return 64, true
	case types.Int8:
		return 8, true
	case types.Int16:
		return 16, true
	case types.Int32, types.UntypedRune:
		return 32, true
	case types.Uint, types.Uint64, types.Uintptr:
		return 64, false
	case types.Uint8:
		return 8, false
	case types.Uint16:
		return 16, false
	case types.Uint32:
		return 32, false
	}
	panic(fmt.Sprintf("widthOf %v", t))
}

// toSym lifts a concrete scalar to a term.
func toSym(x value) sym {
	switch x := x.(type) {
	case sym:
		return x
	case bool:
		if x {
			return sym{t: "true"}
		}
		return sym{t: "false"}
	case int:
		return sym{bvlit(uint64(x), 64), 64, true}
	case int8:
		return sym{bvlit(uint64(x), 8), 8, true}
	case int16:
		return sym{bvlit(uint64(x), 16), 16, true}
	case int32:
		return sym{bvlit(uint64(x), 32), 32, true}
	case int64:
		return sym{bvlit(uint64(x), 64), 64, true}
	case uint:
		return sym{bvlit(uint64(x), 64), 64, false}
	case uint8:
		return sym{bvlit(uint64(x), 8), 8, false}
	case uint16:
		return sym{bvlit(uint64(x), 16), 16, false}
	case uint32:
		return sym{bvlit(uint64(x), 32), 32, false}
	case uint64:
		return sym{bvlit(x, 64), 64, false}
	case uintptr:
		return sym{bvlit(uint64(x), 64), 64, false}
	}
	panic(fmt.Sprintf("toSym %T", x))
}

func isSym(x value) bool { _, ok := x.(sym); return ok }

func symBinop(op token.Token, t types.Type, x, y value) value {
	if sx, ok := x.(sym); ok {
		if v, ok := ex.known[sx.t]; ok {
			x = concreteOf(t, int64(v))
		}
	}
	if sy, ok := y.(sym); ok && op != token.SHL && op != token.SHR {
		if v, ok := ex.known[sy.t]; ok {
			y = concreteOf(t, int64(v))
		}
	}
	if !isSym(x) && !isSym(y) {
		return binop(op, t, x, y)
	}
	a, b := toSym(x), toSym(y)
	w, signed := widthOf(t)
	bin := func(f string) value { return sym{fmt.Sprintf("(%s %s %s)", f, a.t, b.t), w, signed} }
	cmp := func(f string) value { return sym{t: fmt.Sprintf("(%s %s %s)", f, a.t, b.t)} }
	pick := func(s, u string) string {
		if signed {
			return s
		}
		return u
	}
	switch op {
	case token.ADD:
		return bin("bvadd")
	case token.SUB:
		return bin("bvsub")
	case token.MUL:
		return bin("bvmul")
	case token.QUO:
		return bin(pick("bvsdiv", "bvudiv"))
	case token.REM:
		return bin(pick("bvsrem", "bvurem"))
	case token.AND:
		if w == 0 {
			return bin("and")
		}
		return bin("bvand")
	case token.OR:
		if w == 0 {
			return bin("or")
		}
		return bin("bvor")
	case token.XOR:
		return bin("bvxor")
	case token.AND_NOT:
		return sym{fmt.Sprintf("(bvand %s (bvnot %s))", a.t, b.t), w, signed}
	case token.SHL, token.SHR:
		// shift count may have different width: resize b to w (unsigned)
		bt := b.t
		if b.w < w {
			bt = fmt.Sprintf("((_ zero_extend %d) %s)", w-b.w, b.t)
		} else if b.w > w {
			// saturate: if b >= w then w else low bits
			bt = fmt.Sprintf("(ite (bvuge %s %s) %s ((_ extract %d 0) %s))", b.t, bvlit(uint64(w), b.w), bvlit(uint64(w), w), w-1, b.t)
		}
		f := "bvshl"
		if op == token.SHR {
			f = pick("bvashr", "bvlshr")
		}
		return sym{fmt.Sprintf("(%s %s %s)", f, a.t, bt), w, signed}
	case token.EQL:
		return cmp("=")
	case token.NEQ:
		return sym{t: fmt.Sprintf("(not (= %s %s))", a.t, b.t)}
	case token.LSS:
		return cmp(pick("bvslt", "bvult"))
	case token.LEQ:
		return cmp(pick("bvsle", "bvule"))
	case token.GTR:
		return cmp(pick("bvsgt", "bvugt"))
	case token.GEQ:
		return cmp(pick("bvsge", "bvuge"))
	}
	panic(fmt.Sprintf("symBinop %v", op))
}

func symConv(tdst, tsrc types.Type, x sym) value {
	wd, sd := widthOf(tdst)
	ws, ss := widthOf(tsrc)
	switch {
	case wd == ws:
		return sym{x.t, wd, sd}
	case wd < ws:
		return sym{fmt.Sprintf("((_ extract %d 0) %s)", wd-1, x.t), wd, sd}
	default:
		ext := "zero_extend"
		if ss {
			ext = "sign_extend"
		}
		return sym{fmt.Sprintf("((_ %s %d) %s)", ext, wd-ws, x.t), wd, sd}
	}
}

// concreteOf turns a model-free concrete result into a Go value of type t.
func concreteOf(t types.Type, v int64) value {
	switch basicOf(t).Kind() {
	case types.Int, types.UntypedInt:
		return int(v)
	case types.Int8:
		return int8(v)
	case types.Int16:
		return int16(v)
	case types.Int32:
		return int32(v)
	case types.Int64:
		return v
	case types.Uint:
		return uint(v)
	case types.Uint8:
		return uint8(v)
	case types.Uint16:
		return uint16(v)
	case types.Uint32:
		return uint32(v)
	case types.Uint64:
		return uint64(v)
	case types.Uintptr:
		return uintptr(v)
	}
	panic("concreteOf")
}
