package interp

// Prototype: symbolic scalars + decision-prefix path exploration + z3 pipe.

import (
	"fmt"
	"go/token"
	"go/types"
)

// sym is a symbolic scalar: an SMT-LIB term of sort Bool (w==0) or (_ BitVec w).
type sym struct {
	t      string
	w      int  // 0 = Bool
	signed bool // Go signedness of the static type it was produced at
}

func (s sym) String() string { return s.t }

type symstr []value // string with concrete length, bytes concrete(uint8) or sym

func bvlit(v uint64, w int) string {
	if w%4 == 0 {
		return fmt.Sprintf("#x%0*x", w/4, v&mask(w))
	}
	return fmt.Sprintf("#b%0*b", w, v&mask(w))
}

func mask(w int) uint64 {
	if w >= 64 {
		return ^uint64(0)
	}
	return (uint64(1) << uint(w)) - 1
}

// ---------------------------------------------------------------- lifting

func basicOf(t types.Type) *types.Basic {
	b, _ := t.Underlying().(*types.Basic)
	return b
}

func widthOf(t types.Type) (int, bool) {
	switch basicOf(t).Kind() {
	case types.Bool, types.UntypedBool:
		return 0, false
	case types.Int, types.Int64, types.UntypedInt:
		return 64, true
	case types.Int8:
		return 8, true
	case types.Int16:
		return 16, true
	case types.Int32, types.UntypedRune:
		return 32, true
	case types.Uint, types.Uint64, types.Uintptr:
		return 64, false
	case types.Uint8:
		return 8, false
	case types.Uint16:
		return 16, false
	case types.Uint32:
		return 32, false
	}
	panic(fmt.Sprintf("widthOf %v", t))
}

// toSym lifts a concrete scalar to a term.
func toSym(x value) sym {
	switch x := x.(type) {
	case sym:
		return x
	case bool:
		if x {
			return sym{t: "true"}
		}
		return sym{t: "false"}
	case int:
		return sym{bvlit(uint64(x), 64), 64, true}
	case int8:
		return sym{bvlit(uint64(x), 8), 8, true}
	case int16:
		return sym{bvlit(uint64(x), 16), 16, true}
	case int32:
		return sym{bvlit(uint64(x), 32), 32, true}
	case int64:
		return sym{bvlit(uint64(x), 64), 64, true}
	case uint:
		return sym{bvlit(uint64(x), 64), 64, false}
	case uint8:
		return sym{bvlit(uint64(x), 8), 8, false}
	case uint16:
		return sym{bvlit(uint64(x), 16), 16, false}
	case uint32:
		return sym{bvlit(uint64(x), 32), 32, false}
	case uint64:
		return sym{bvlit(x, 64), 64, false}
	case uintptr:
		return sym{bvlit(uint64(x), 64), 64, false}
	}
	panic(fmt.Sprintf("toSym %T", x))
}

func isSym(x value) bool { _, ok := x.(sym); return ok }

func symBinop(op token.Token, t types.Type, x, y value) value {
	if sx, ok := x.(sym); ok {
		if v, ok := ex.known[sx.t]; ok {
			x = concreteOf(t, int64(v))
		}
	}
	if sy, ok := y.(sym); ok && op != token.SHL && op != token.SHR {
		if v, ok := ex.known[sy.t]; ok {
			y = concreteOf(t, int64(v))
		}
	}
	if !isSym(x) && !isSym(y) {
		return binop(op, t, x, y)
	}
	a, b := toSym(x), toSym(y)
	w, signed := widthOf(t)
	bin := func(f string) value { return sym{fmt.Sprintf("(%s %s %s)", f, a.t, b.t), w, signed} }
	cmp := func(f string) value { return sym{t: fmt.Sprintf("(%s %s %s)", f, a.t, b.t)} }
	pick := func(s, u string) string {
		if signed {
			return s
		}
		return u
	}
	switch op {
	case token.ADD:
		return bin("bvadd")
	case token.SUB:
		return bin("bvsub")
	case token.MUL:
		return bin("bvmul")
	case token.QUO:
		return bin(pick("bvsdiv", "bvudiv"))
	case token.REM:
		return bin(pick("bvsrem", "bvurem"))
	case token.AND:
		if w == 0 {
			return bin("and")
		}
		return bin("bvand")
	case token.OR:
		if w == 0 {
			return bin("or")
		}
		return bin("bvor")
	case token.XOR:
		return bin("bvxor")
	case token.AND_NOT:
		return sym{fmt.Sprintf("(bvand %s (bvnot %s))", a.t, b.t), w, signed}
	case token.SHL, token.SHR:
		// shift count may have different width: resize b to w (unsigned)
		bt := b.t
		if b.w < w {
			bt = fmt.Sprintf("((_ zero_extend %d) %s)", w-b.w, b.t)
		} else if b.w > w {
			// saturate: if b >= w then w else low bits
			bt = fmt.Sprintf("(ite (bvuge %s %s) %s ((_ extract %d 0) %s))", b.t, bvlit(uint64(w), b.w), bvlit(uint64(w), w), w-1, b.t)
		}
		f := "bvshl"
		if op == token.SHR {
			f = pick("bvashr", "bvlshr")
		}
		return sym{fmt.Sprintf("(%s %s %s)", f, a.t, bt), w, signed}
	case token.EQL:
		return cmp("=")
	case token.NEQ:
		return sym{t: fmt.Sprintf("(not (= %s %s))", a.t, b.t)}
	case token.LSS:
		return cmp(pick("bvslt", "bvult"))
	case token.LEQ:
		return cmp(pick("bvsle", "bvule"))
	case token.GTR:
		return cmp(pick("bvsgt", "bvugt"))
	case token.GEQ:
		return cmp(pick("bvsge", "bvuge"))
	}
	panic(fmt.Sprintf("symBinop %v", op))
}

func symConv(tdst, tsrc types.Type, x sym) value {
	wd, sd := widthOf(tdst)
	ws, ss := widthOf(tsrc)
	switch {
	case wd == ws:
		return sym{x.t, wd, sd}
	case wd < ws:
		return sym{fmt.Sprintf("((_ extract %d 0) %s)", wd-1, x.t), wd, sd}
	default:
		ext := "zero_extend"
		if ss {
			ext = "sign_extend"
		}
		return sym{fmt.Sprintf("((_ %s %d) %s)", ext, wd-ws, x.t), wd, sd}
	}
}

// concreteOf turns a model-free concrete result into a Go value of type t.
func concreteOf(t types.Type, v int64) value {
	switch basicOf(t).Kind() {
	case types.Int, types.UntypedInt:
		return int(v)
	case types.Int8:
		return int8(v)
	case types.Int16:
		return int16(v)
	case types.Int32:
		return int32(v)
	case types.Int64:
		return v
	case types.Uint:
		return uint(v)
	case types.Uint8:
		return uint8(v)
	case types.Uint16:
		return uint16(v)
	case types.Uint32:
		return uint32(v)
	case types.Uint64:
		return uint64(v)
	case types.Uintptr:
		return uintptr(v)
	}
	panic("concreteOf")
}
