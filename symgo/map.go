package interp

// Ordered map used for every Go map in the interpreted program.
//
// Re-execution based path exploration needs determinism, so iteration is in
// insertion order by default.  When the harness asks for it (svNondetMapOrder)
// each range over a map with >=2 live entries picks the next entry through a
// symbolic choice, which turns Go's randomised iteration order into a
// quantified variable.
//
// Keys may be symbolic strings (symstr) or symbolic scalars: a lookup then
// compares against the existing keys one by one and forks on the outcome.

import (
	"fmt"
	"go/types"
	"strings"
)

type hashable interface {
	hash(t types.Type) int
	eq(t types.Type, x interface{}) bool
}

type oent struct {
	key value
	val value
	del bool
}

type omap struct {
	keyType types.Type
	ents    []*oent
	idx     map[interface{}][]int // hash key -> entry indices
	n       int
	symKeys int // live entries whose key holds symbolic data
	typ     string
}

func makeMap(kt types.Type, reserve int64) value {
	return &omap{keyType: kt, idx: map[interface{}][]int{}}
}

// hasSym reports whether v contains symbolic data (shallow containers only).
func hasSym(v value) bool {
	switch v := v.(type) {
	case sym, symstr:
		return true
	case structure:
		for _, f := range v {
			if hasSym(f) {
				return true
			}
		}
	case array:
		for _, f := range v {
			if hasSym(f) {
				return true
			}
		}
	case iface:
		return hasSym(v.v)
	}
	return false
}

func (m *omap) hkey(k value) interface{} {
	switch k := k.(type) {
	case hashable:
		return k.hash(m.keyType)
	case symstr, sym:
		panic("hkey of symbolic key")
	default:
		return k
	}
}

// find returns the index of the entry whose key equals k, or -1.
func (m *omap) find(k value) int {
	if m == nil {
		return -1
	}
	ksym := hasSym(k)
	if !ksym && m.symKeys == 0 {
		for _, i := range m.idx[m.hkey(k)] {
			e := m.ents[i]
			if !e.del && equals(m.keyType, e.key, k) {
				return i
			}
		}
		return -1
	}
	// symbolic comparison against every live key, in insertion order
	for i, e := range m.ents {
		if e.del {
			continue
		}
		if !ksym && !hasSym(e.key) {
			if equals(m.keyType, e.key, k) {
				return i
			}
			continue
		}
		if equals(m.keyType, e.key, k) { // forks
			return i
		}
	}
	return -1
}

func (m *omap) lookup(k value) (value, bool) {
	if i := m.find(k); i >= 0 {
		return m.ents[i].val, true
	}
	return nil, false
}

func (m *omap) insert(k, v value) {
	if m == nil {
		panic(targetPanic{iface{nil, "assignment to entry in nil map"}})
	}
	if i := m.find(k); i >= 0 {
		m.ents[i].val = v
		return
	}
	m.ents = append(m.ents, &oent{key: k, val: v})
	if hasSym(k) {
		m.symKeys++
	} else {
		h := m.hkey(k)
		m.idx[h] = append(m.idx[h], len(m.ents)-1)
	}
	m.n++
}

func (m *omap) delete(k value) {
	if m == nil {
		return
	}
	if i := m.find(k); i >= 0 {
		e := m.ents[i]
		e.del = true
		m.n--
		if hasSym(e.key) {
			m.symKeys--
		}
	}
}

func (m *omap) len() int {
	if m == nil {
		return 0
	}
	return m.n
}

func (m *omap) clear() {
	if m == nil {
		return
	}
	m.ents = nil
	m.idx = map[interface{}][]int{}
	m.n = 0
	m.symKeys = 0
}

// live returns the live entries in insertion order.
func (m *omap) live() []*oent {
	if m == nil {
		return nil
	}
	r := make([]*oent, 0, m.n)
	for _, e := range m.ents {
		if !e.del {
			r = append(r, e)
		}
	}
	return r
}

type omapIter struct {
	m    *omap
	pos  int
	rest []*oent // nondeterministic mode: entries not yet visited
	nd   bool
}

func newMapIter(m *omap) *omapIter {
	it := &omapIter{m: m}
	if ex != nil && ex.nondetMap && m.len() >= 2 && m.len() <= ex.nondetMapMax && strings.Contains(m.typ, ex.nondetMapType) {
		it.nd = true
		it.rest = m.live()
	}
	return it
}

func (it *omapIter) next() tuple {
	if it.nd {
		// drop entries deleted meanwhile
		j := 0
		for _, e := range it.rest {
			if !e.del {
				it.rest[j] = e
				j++
			}
		}
		it.rest = it.rest[:j]
		if len(it.rest) == 0 {
			return tuple{false, nil, nil}
		}
		k := 0
		if len(it.rest) > 1 {
			k = ex.choose(fmt.Sprintf("maporder%d", len(it.rest)), len(it.rest))
		}
		e := it.rest[k]
		it.rest = append(it.rest[:k:k], it.rest[k+1:]...)
		return tuple{true, e.key, e.val}
	}
	if it.m != nil {
		for it.pos < len(it.m.ents) {
			e := it.m.ents[it.pos]
			it.pos++
			if !e.del {
				return tuple{true, e.key, e.val}
			}
		}
	}
	return tuple{false, nil, nil}
}
