package interp

import (
	"bytes"
	"strings"
	"go/token"
	_ "fmt"

	"go/types"
	"golang.org/x/tools/go/ssa"
)

func bytesOf(v value) []byte {
	s := v.([]value)
	b := make([]byte, len(s))
	for i := range s {
		b[i] = s[i].(byte)
	}
	return b
}

func valuesOf(b []byte) []value {
	s := make([]value, len(b))
	for i := range b {
		s[i] = b[i]
	}
	return s
}

func init() {
	for k, v := range map[string]externalFn{
		"(*strings.Builder).copyCheck": func(fr *frame, args []value) value { return nil },
		"(*strings.Builder).String": func(fr *frame, args []value) value {
			st := (*args[0].(*value)).(structure)
			return mkStr(st[1].([]value))
		},
		"internal/bytealg.MakeNoZero": func(fr *frame, args []value) value {
			n := asInt64(args[0])
			s := make([]value, n)
			for i := range s {
				s[i] = byte(0)
			}
			return s
		},
		"internal/bytealg.IndexByteString": func(fr *frame, args []value) value {
			return indexByteCells(cellsOf(args[0]), args[1])
		},
		"internal/bytealg.CountString": func(fr *frame, args []value) value {
			return countByteCells(cellsOf(args[0]), args[1])
		},
		"internal/bytealg.IndexString": func(fr *frame, args []value) value {
			return indexCells(cellsOf(args[0]), cellsOf(args[1]))
		},
		"fmt.Sprintf": func(fr *frame, args []value) value {
			return symFmt(args[0], args[1].([]value), fr)
		},
		"time.Now": func(fr *frame, args []value) value {
			// wall=0 (no monotonic), ext = seconds since year 1, loc=nil (UTC)
			var loc *value
			return structure{uint64(0), int64(63900000000), loc}
		},
		"os.Hostname": func(fr *frame, args []value) value {
			return tuple{"vm", iface{}}
		},
		"crypto/rand.Read": func(fr *frame, args []value) value {
			return randFill(args[0].([]value))
		},
		"mime.TypeByExtension": func(fr *frame, args []value) value {
			if _, ok := args[0].(symstr); ok {
				// the model knows two extensions; a symbolic one is compared against them
				if truth(strBinop(token.EQL, args[0], ".txt")) {
					return "text/plain; charset=utf-8"
				}
				if truth(strBinop(token.EQL, args[0], ".png")) {
					return "image/png"
				}
				return ""
			}
			switch args[0].(string) {
			case ".txt":
				return "text/plain; charset=utf-8"
			case ".png":
				return "image/png"
			}
			return ""
		},
		"(*sync.Once).Do": func(fr *frame, args []value) value {
			st := (*args[0].(*value)).(structure)
			// fields: done atomic.Uint32 (struct{_ noCopy; v uint32}), m Mutex
			d := st[0].(structure)
			if d[len(d)-1].(uint32) == 0 {
				d[len(d)-1] = uint32(1)
				call(fr.i, fr, 0, args[1], nil)
			}
			return nil
		},
		"sync/atomic.LoadUint32":  func(fr *frame, args []value) value { return *args[0].(*value) },
		"sync/atomic.LoadInt32":   func(fr *frame, args []value) value { return *args[0].(*value) },
		"sync/atomic.LoadInt64":   func(fr *frame, args []value) value { return *args[0].(*value) },
		"sync/atomic.LoadUint64":  func(fr *frame, args []value) value { return *args[0].(*value) },
		"sync/atomic.StoreUint32": func(fr *frame, args []value) value { *args[0].(*value) = args[1]; return nil },
		"sync/atomic.StoreInt32":  func(fr *frame, args []value) value { *args[0].(*value) = args[1]; return nil },
		"sync/atomic.CompareAndSwapInt32": func(fr *frame, args []value) value {
			if *args[0].(*value) == args[1] {
				*args[0].(*value) = args[2]
				return true
			}
			return false
		},
		"sync/atomic.AddInt32": func(fr *frame, args []value) value {
			*args[0].(*value) = (*args[0].(*value)).(int32) + args[1].(int32)
			return *args[0].(*value)
		},
		// sync.Pool: Get may return any item Put earlier, or a new one.  For pools
		// used directly by the code under test both behaviours are explored (a
		// structural choice whenever the pool holds an item); pools inside the
		// standard library always hand out a new item (their reuse is not the
		// subject and would only multiply paths).
		"(*sync.Pool).Get": func(fr *frame, args []value) value {
			pp := args[0].(*value)
			st := (*pp).(structure)
			if free := ex.pools[pp]; len(free) > 0 && fr.caller != nil && fr.caller.fn != nil && fr.caller.fn.Pkg != nil &&
				strings.HasPrefix(fr.caller.fn.Pkg.Pkg.Path(), "github.com/wneessen/go-mail") {
				if ex.choose("pool-reuse", 2) == 1 {
					it := free[len(free)-1]
					ex.pools[pp] = free[:len(free)-1]
					return it
				}
			}
			newf := st[len(st)-1]
			if f, ok := newf.(*ssa.Function); ok && f == nil {
				return iface{}
			}
			return call(fr.i, fr, 0, newf, nil)
		},
		"(*sync.Pool).Put": func(fr *frame, args []value) value {
			pp := args[0].(*value)
			if ex.pools == nil {
				ex.pools = map[*value][]value{}
			}
			ex.pools[pp] = append(ex.pools[pp], args[1])
			// From now on another goroutine may take the object and overwrite it: the
			// byte slices it owns are filled with a marker, so that code which keeps
			// using their memory after Put (an alias handed out before) reads garbage.
			// Correct code never looks at a pooled object again after Put.
			if fr.caller != nil && fr.caller.fn != nil && fr.caller.fn.Pkg != nil &&
				strings.HasPrefix(fr.caller.fn.Pkg.Pkg.Path(), "github.com/wneessen/go-mail") {
				obj := args[1]
				if ie, ok := obj.(iface); ok {
					obj = ie.v
				}
				if pv, ok := obj.(*value); ok && pv != nil {
					if st, ok := (*pv).(structure); ok {
						for _, f := range st {
							if sl, ok := f.([]value); ok {
								full := sl[:cap(sl)]
								for i := range full {
									switch full[i].(type) {
									case byte, sym:
										full[i] = byte(0xEE)
									}
								}
							}
						}
					}
				}
			}
			return nil
		},
		"time.initLocal": func(fr *frame, args []value) value { return nil },
		"(*internal/godebug.Setting).Value":         func(fr *frame, args []value) value { return "" },
		"(*internal/godebug.Setting).IncNonDefault": func(fr *frame, args []value) value { return nil },
		"mime/multipart.readMIMEHeader": func(fr *frame, args []value) value {
			f := fr.i.prog.ImportedPackage("net/textproto").Func("readMIMEHeader")
			return call(fr.i, fr, 0, f, args)
		},
		"internal/bytealg.Index": func(fr *frame, args []value) value {
			return indexCells(cellsOf(args[0]), cellsOf(args[1]))
		},
		"internal/bytealg.IndexByte": func(fr *frame, args []value) value {
			return indexByteCells(cellsOf(args[0]), args[1])
		},
		"internal/bytealg.Count": func(fr *frame, args []value) value {
			return countByteCells(cellsOf(args[0]), args[1])
		},
		"internal/bytealg.Equal": func(fr *frame, args []value) value {
			return truth(cellsEq(cellsOf(args[0]), cellsOf(args[1])))
		},
		"internal/bytealg.Compare": func(fr *frame, args []value) value {
			a, b := cellsOf(args[0]), cellsOf(args[1])
			if !anySym(a) && !anySym(b) {
				return bytes.Compare(bytesOf(a), bytesOf(b))
			}
			for i := 0; i < len(a) && i < len(b); i++ {
				if truth(byteEq(a[i], b[i])) {
					continue
				}
				if truth(symBinop(token.LSS, types.Typ[types.Uint8], a[i], b[i])) {
					return -1
				}
				return 1
			}
			switch {
			case len(a) < len(b):
				return -1
			case len(a) > len(b):
				return 1
			}
			return 0
		},
		"internal/bytealg.LastIndexByte": func(fr *frame, args []value) value {
			return lastIndexByteCells(cellsOf(args[0]), args[1])
		},
		"internal/bytealg.LastIndexByteString": func(fr *frame, args []value) value {
			return lastIndexByteCells(cellsOf(args[0]), args[1])
		},
		"(*sync.Mutex).Lock":      func(fr *frame, args []value) value { ex.lockOp(args[0].(*value), "Lock"); return nil },
		"(*sync.Mutex).Unlock":    func(fr *frame, args []value) value { ex.lockOp(args[0].(*value), "Unlock"); return nil },
		"(*sync.RWMutex).Lock":    func(fr *frame, args []value) value { ex.lockOp(args[0].(*value), "Lock"); return nil },
		"(*sync.RWMutex).Unlock":  func(fr *frame, args []value) value { ex.lockOp(args[0].(*value), "Unlock"); return nil },
		"(*sync.RWMutex).RLock":   func(fr *frame, args []value) value { ex.lockOp(args[0].(*value), "RLock"); return nil },
		"(*sync.RWMutex).RUnlock": func(fr *frame, args []value) value { ex.lockOp(args[0].(*value), "RUnlock"); return nil },
		"fmt.Errorf": func(fr *frame, args []value) value {
			format := args[0].(string)
			fargs := args[1].([]value)
			msg := symFmt(format, fargs, fr)
			// collect the operands of %w verbs (non-nil errors only)
			var wrapped []iface
			ai := 0
			for i := 0; i < len(format); i++ {
				if format[i] != '%' {
					continue
				}
				i++
				for i < len(format) && strings.IndexByte("0123456789.+-# ", format[i]) >= 0 {
					i++
				}
				if i >= len(format) {
					break
				}
				if format[i] == '%' {
					continue
				}
				if format[i] == 'w' && ai < len(fargs) {
					if e := fargs[ai].(iface); e.t != nil {
						wrapped = append(wrapped, e)
					}
				}
				ai++
			}
			fmtPkg := fr.i.prog.ImportedPackage("fmt")
			switch len(wrapped) {
			case 0:
				ep := fr.i.prog.ImportedPackage("errors")
				var cell value = structure{msg}
				return iface{t: types.NewPointer(ep.Type("errorString").Type()), v: &cell}
			case 1:
				var cell value = structure{msg, wrapped[0]}
				return iface{t: types.NewPointer(fmtPkg.Type("wrapError").Type()), v: &cell}
			default:
				errs := make([]value, len(wrapped))
				for i, e := range wrapped {
					errs[i] = e
				}
				var cell value = structure{msg, errs}
				return iface{t: types.NewPointer(fmtPkg.Type("wrapErrors").Type()), v: &cell}
			}
		},
		"fmt.Fprintf": func(fr *frame, args []value) value {
			str := symFmt(args[1], args[2].([]value), fr)
			w := args[0].(iface)
			m := fr.i.prog.LookupMethod(w.t, nil, "Write")
			return call(fr.i, fr, 0, m, []value{w.v, append([]value{}, cellsOf(str)...)})
		},
	} {
		externals[k] = v
	}
	delete(externals, "strings.Index")
	delete(externals, "strconv.Atoi")
	delete(externals, "strings.ToLower")
	delete(externals, "strings.EqualFold")
	delete(externals, "bytes.Equal")
	delete(externals, "bytes.IndexByte")
	delete(externals, "unicode/utf8.DecodeRuneInString")
	delete(externals, "strings.Count")
	delete(externals, "strings.IndexByte")
	delete(externals, "strings.Replace")
}

func unwrapErr(fr *frame, e iface) []iface {
	if e.t == nil {
		return nil
	}
	ms := fr.i.prog.MethodSets.MethodSet(e.t)
	if sel := ms.Lookup(nil, "Unwrap"); sel != nil {
		f := fr.i.prog.MethodValue(sel)
		r := call(fr.i, fr, 0, f, []value{e.v})
		switch r := r.(type) {
		case iface:
			return []iface{r}
		case []value:
			var out []iface
			for _, x := range r {
				out = append(out, x.(iface))
			}
			return out
		}
	}
	return nil
}

func errIs(fr *frame, e, target iface) bool {
	if e.t == nil {
		return target.t == nil
	}
	if types.Comparable(e.t) && sameType(e.t, target.t) && equals(e.t, e.v, target.v) {
		return true
	}
	ms := fr.i.prog.MethodSets.MethodSet(e.t)
	if sel := ms.Lookup(nil, "Is"); sel != nil {
		f := fr.i.prog.MethodValue(sel)
		if truth(call(fr.i, fr, 0, f, []value{e.v, target})) {
			return true
		}
	}
	for _, u := range unwrapErr(fr, e) {
		if u.t != nil && errIs(fr, u, target) {
			return true
		}
	}
	return false
}

func errAs(fr *frame, e iface, tptr iface) bool {
	if e.t == nil {
		return false
	}
	elem := tptr.t.Underlying().(*types.Pointer).Elem()
	ok := false
	if _, isIface := elem.Underlying().(*types.Interface); isIface {
		ok = types.AssignableTo(e.t, elem)
		if ok {
			*tptr.v.(*value) = e
		}
	} else if types.Identical(e.t, elem) {
		ok = true
		*tptr.v.(*value) = e.v
	}
	if ok {
		return true
	}
	for _, u := range unwrapErr(fr, e) {
		if u.t != nil && errAs(fr, u, tptr) {
			return true
		}
	}
	return false
}

func init() {
	externals["errors.Is"] = func(fr *frame, args []value) value {
		return errIs(fr, args[0].(iface), args[1].(iface))
	}
	externals["errors.As"] = func(fr *frame, args []value) value {
		return errAs(fr, args[0].(iface), args[1].(iface))
	}
}

func init() {
	externals["context.WithDeadline"] = func(fr *frame, args []value) value {
		var noop *ssa.Function
		for _, p := range fr.i.prog.AllPackages() {
			if f := p.Func("svNoop"); f != nil {
				noop = f
			}
		}
		return tuple{args[0], noop}
	}
}
