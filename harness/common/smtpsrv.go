package PKGNAME

// A byte-level reference SMTP server (RFC 5321 section 4.1.4 state machine,
// Postfix-like strictness) behind an in-memory net.Conn. It is the monitor
// for the dialogue properties: it parses what the client writes, keeps
// transaction state, records committed messages and picks each reply from
// symbolic variables. Written for the harnesses; ordinary Go, replayable.

import (
	"io"
	"net"
	"time"
)

type hxAddr struct{}

func (hxAddr) Network() string { return "tcp" }
func (hxAddr) String() string  { return "192.0.2.1:25" }

type hxTimeoutErr struct{}

func (hxTimeoutErr) Error() string   { return "i/o timeout" }
func (hxTimeoutErr) Timeout() bool   { return true }
func (hxTimeoutErr) Temporary() bool { return true }

type hxNetErr struct{ s string }

func (e *hxNetErr) Error() string { return e.s }

const (
	hxStConnected = iota // greeting sent, no EHLO/HELO yet
	hxStIdle             // ready for MAIL
	hxStMail             // MAIL accepted
	hxStRcpt             // at least one RCPT accepted
)

type hxCmd struct {
	verb   string
	line   string // full command line without CRLF
	state  int    // server state when it arrived
	code   [3]byte
	mark   string
	posKey string
	deviated bool // the reply was not the expected one
}

type hxCommit struct {
	from  string
	rcpts []string
	data  []byte // dot-unstuffed content
}

type hxSrv struct {
	// configuration
	caps       []string // EHLO keywords advertised (e.g. "8BITMIME", "DSN", "AUTH PLAIN")
	capsTLS    []string // if non-nil: keywords advertised once TLS is active (a server may change its offer after STARTTLS)
	capsTLSSet bool
	maxDev     int      // bound on non-OK replies per run (-1: unbounded)
	symDigits  bool     // second and third digit of failing replies symbolic
	noDrop     bool     // never drop the connection
	onlyOK     bool     // honest server: every reply is the expected one
	stallAt    int      // command index at which the server goes silent (-1: never)
	hsStall    bool     // the TLS handshake never completes (silent peer)
	contentStall bool   // the server stops reading once DATA was accepted: writes of the content block
	wdlSet     bool     // a write deadline is armed (deadlineSet: a read deadline)
	textOf     func(c *hxCmd, okReply bool) string
	authFn     func(s *hxSrv, line string) // AUTH / continuation handler (nil: 502)
	inAuth     bool
	authStep   int
	greeting   string
	monitor    bool // raise protocol-legality assertions (C04)
	failPos    string // if set: only replies at this position key may deviate
	cleanupRset bool  // with failPos: the RSET right after the deviating reply may deviate too
	failVerb   string // if set: only replies to this verb may deviate
	multiline  bool   // every reply (other than EHLO's) is sent as a two-line reply
	wideEOD    bool   // the reply to end-of-data may also be a 1yz or 3yz reply
	eodAny2yz  bool   // with wideEOD: a positive reply to end-of-data is any 2yz code (symbolic digits), not only 250

	// state
	state        int
	ehloCaps     []string // capabilities of the most recent successful EHLO (nil after HELO)
	heloDone     bool
	inData       bool
	in           []byte
	out          []byte
	dropped      bool
	closed       bool
	closeCalls   int
	greetingRead bool
	devs         int
	cmds         []*hxCmd
	from         string
	rcpts        []string
	rcptRejected bool
	rsetRejected bool
	payload      []byte
	commits      []hxCommit
	eodCodes     [][3]byte // reply to each end-of-data, in order
	quitSeen     bool
	afterDrop    int // bytes written by the client after the server dropped
	deadline     time.Time
	deadlineSet  bool
	deadlineCalls int
	stalled      bool
	blockedRead  bool // client read with nothing queued and no stall configured
	tlsActive    bool
	phase        string
	clear         [][]byte // chunks written below the TLS layer (cleartext tap)
	encBytes      int
	viaTLS        bool
	certName      string
	certTrusted   bool
	tlsGarbage    bool
	starttlsReply int
	authChallenges int
	probe        func() bool // C13: is the send lock held? (nil: not checked)
	armChecks    int
	expectTimeout time.Duration
	posCount     map[string]int
	onDrained    func()   // called when the client has read everything the server queued so far
	refuseDials  int      // number of dial attempts that are refused before one reaches the server (fallback port)
	dialed       []string // addresses the dial function was asked for
}

func hxNewSrv(caps []string) *hxSrv {
	s := &hxSrv{caps: caps, maxDev: -1, stallAt: -1, greeting: "220 hx.example ESMTP ready\r\n", posCount: map[string]int{}}
	s.out = append(s.out, s.greeting...)
	return s
}

var hxAllowOK2 [256]byte // '2','4','5','X'
var hxAllowOK3 [256]byte // '3','4','5','X'
var hxAllowOK2ND [256]byte
var hxAllowOK3ND [256]byte
var hxAllowWide [256]byte // '1'..'5','X'
var hxAllowWideND [256]byte
var hxDigit [256]byte

func init() {
	for _, c := range []byte{'2', '4', '5', 'X'} {
		hxAllowOK2[c] = 1
	}
	for _, c := range []byte{'3', '4', '5', 'X'} {
		hxAllowOK3[c] = 1
	}
	for _, c := range []byte{'2', '4', '5'} {
		hxAllowOK2ND[c] = 1
	}
	for _, c := range []byte{'3', '4', '5'} {
		hxAllowOK3ND[c] = 1
	}
	for _, c := range []byte{'1', '2', '3', '4', '5', 'X'} {
		hxAllowWide[c] = 1
	}
	for _, c := range []byte{'1', '2', '3', '4', '5'} {
		hxAllowWideND[c] = 1
	}
	for c := byte('0'); c <= '9'; c++ {
		hxDigit[c] = 1
	}
}

// pick chooses the reply class for a command: the expected code, a 4yz, a 5yz
// or a dropped connection, as one symbolic byte. It returns the three code
// digits, or drop=true.
func (s *hxSrv) pick(c *hxCmd, ok string) (code [3]byte, drop bool) {
	code = [3]byte{ok[0], ok[1], ok[2]}
	key := c.verb
	if s.inData {
		key = "EOD"
	}
	k := s.posCount[key]
	s.posCount[key] = k + 1
	c.posKey = key + string(rune('0'+k))
	// cleanupRset: the RSET that directly follows the one deviating reply may deviate as well
	cleanup := s.cleanupRset && key == "RSET" && s.devs == 1 && len(s.cmds) >= 2 && s.cmds[len(s.cmds)-2].deviated
	if s.onlyOK || (s.failPos != "" && s.failPos != c.posKey && !cleanup) || (s.failVerb != "" && s.failVerb != key) {
		return code, false
	}
	if s.maxDev >= 0 && s.devs >= s.maxDev {
		return code, false
	}
	d := svByte("reply")
	switch {
	case s.wideEOD && key == "EOD" && !s.noDrop:
		svAssume(hxAllowWide[d] == 1)
	case s.wideEOD && key == "EOD":
		svAssume(hxAllowWideND[d] == 1)
	case ok[0] == '2' && !s.noDrop:
		svAssume(hxAllowOK2[d] == 1)
	case ok[0] == '2':
		svAssume(hxAllowOK2ND[d] == 1)
	case !s.noDrop:
		svAssume(hxAllowOK3[d] == 1)
	default:
		svAssume(hxAllowOK3ND[d] == 1)
	}
	if s.eodAny2yz && key == "EOD" && d == '2' {
		// a positive completion reply to end-of-data need not be 250
		d2, d3 := svByte("eod-d2"), svByte("eod-d3")
		svAssume(hxDigit[d2] == 1)
		svAssume(hxDigit[d3] == 1)
		code[1], code[2] = d2, d3
		return code, false
	}
	if d == ok[0] {
		return code, false
	}
	s.devs++
	c.deviated = true
	if d == 'X' {
		return code, true
	}
	code[0] = d
	code[1], code[2] = '5', '0'
	if s.symDigits {
		d2, d3 := svByte("reply-d2"), svByte("reply-d3")
		svAssume(hxDigit[d2] == 1)
		svAssume(hxDigit[d3] == 1)
		code[1], code[2] = d2, d3
	}
	return code, false
}

func (s *hxSrv) send(c *hxCmd, code [3]byte, okReply bool, extra []string) {
	c.code = code
	text := "reply to " + c.mark
	if s.textOf != nil {
		text = s.textOf(c, okReply)
	}
	if s.multiline && len(extra) == 0 {
		extra = []string{"first line of the answer"}
	}
	for _, l := range extra {
		s.out = append(s.out, code[0], code[1], code[2], '-')
		s.out = append(s.out, l...)
		s.out = append(s.out, '\r', '\n')
	}
	s.out = append(s.out, code[0], code[1], code[2], ' ')
	s.out = append(s.out, text...)
	s.out = append(s.out, '\r', '\n')
}

func hxUpper(b []byte) string {
	r := make([]byte, len(b))
	for i, c := range b {
		if c >= 'a' && c <= 'z' {
			c -= 32
		}
		r[i] = c
	}
	return string(r)
}

func hxHasCap(caps []string, kw string) bool {
	for _, c := range caps {
		if c == kw || (len(c) > len(kw) && c[:len(kw)] == kw && c[len(kw)] == ' ') {
			return true
		}
	}
	return false
}

// respond handles one command line and queues the reply.
func (s *hxSrv) respond(line []byte) {
	verb := "AUTH-CONT"
	if !s.inAuth {
		sp := 0
		for sp < len(line) && line[sp] != ' ' {
			sp++
		}
		verb = hxUpper(line[:sp])
	}
	c := &hxCmd{verb: verb, line: string(line), state: s.state, mark: "cmd" + string(rune('A'+len(s.cmds)%26)) + string(rune('a'+len(s.cmds)/26))}
	s.cmds = append(s.cmds, c)
	if s.stallAt >= 0 && len(s.cmds)-1 >= s.stallAt {
		s.stalled = true
		return
	}
	if s.inAuth && s.authFn != nil {
		s.authFn(s, string(line))
		return
	}
	switch verb {
	case "EHLO", "HELO":
		code, drop := s.pick(c, "250")
		if drop {
			s.dropped = true
			return
		}
		ok := code[0] == '2'
		if ok {
			s.state = hxStIdle
			s.heloDone = true
			s.from, s.rcpts, s.rcptRejected = "", nil, false
			if verb == "EHLO" {
				caps := s.caps
				if s.tlsActive && s.capsTLSSet {
					caps = s.capsTLS
				}
				s.ehloCaps = caps
				c.code = code
				lines := append([]string{"hx.example greets you"}, caps...)
				for i, l := range lines {
					sep := byte('-')
					if i == len(lines)-1 {
						sep = ' '
					}
					s.out = append(s.out, code[0], code[1], code[2], sep)
					s.out = append(s.out, l...)
					s.out = append(s.out, '\r', '\n')
				}
				return
			}
			s.ehloCaps = nil
		}
		s.send(c, code, ok, nil)
	case "MAIL":
		if s.monitor {
			svAssert(s.heloDone, "C04 MAIL before EHLO/HELO")
			if s.rsetRejected {
				svAssert(s.state == hxStIdle || !s.heloDone, "C04 MAIL inside an open transaction after the server rejected RSET")
			} else {
				svAssert(s.state == hxStIdle || !s.heloDone, "C04 MAIL inside an open transaction")
			}
		}
		hxCheckParams(s, c, line)
		code, drop := s.pick(c, "250")
		if drop {
			s.dropped = true
			return
		}
		if code[0] == '2' {
			if s.state == hxStIdle {
				s.state = hxStMail
			}
			s.from = hxPath(line)
			s.rcpts, s.rcptRejected = nil, false
		}
		s.send(c, code, code[0] == '2', nil)
	case "RCPT":
		if s.monitor {
			svAssert(s.state == hxStMail || s.state == hxStRcpt, "C04 RCPT without an accepted MAIL")
		}
		hxCheckParams(s, c, line)
		code, drop := s.pick(c, "250")
		if drop {
			s.dropped = true
			return
		}
		if code[0] == '2' {
			if s.state == hxStMail {
				s.state = hxStRcpt
			}
			s.rcpts = append(s.rcpts, hxPath(line))
		} else {
			s.rcptRejected = true
		}
		s.send(c, code, code[0] == '2', nil)
	case "DATA":
		if s.monitor {
			svAssert(s.state == hxStRcpt, "C04 DATA without an accepted recipient")
			svAssert(!s.rcptRejected, "C04 DATA although a recipient was rejected")
		}
		code, drop := s.pick(c, "354")
		if drop {
			s.dropped = true
			return
		}
		if code[0] == '3' {
			s.inData = true
			s.payload = nil
		}
		s.send(c, code, code[0] == '3', nil)
	case "RSET":
		code, drop := s.pick(c, "250")
		if drop {
			s.dropped = true
			return
		}
		if code[0] == '2' && s.heloDone {
			s.state = hxStIdle
			s.from, s.rcpts, s.rcptRejected = "", nil, false
			s.rsetRejected = false
		} else if s.state != hxStIdle {
			s.rsetRejected = true
		}
		s.send(c, code, code[0] == '2', nil)
	case "NOOP", "VRFY":
		code, drop := s.pick(c, "250")
		if drop {
			s.dropped = true
			return
		}
		s.send(c, code, code[0] == '2', nil)
	case "QUIT":
		s.quitSeen = true
		code, drop := s.pick(c, "221")
		if drop {
			s.dropped = true
			return
		}
		s.send(c, code, code[0] == '2', nil)
		if code[0] == '2' {
			s.dropped = true // the server closes after 221 (queued reply is still delivered)
		}
	case "STARTTLS":
		switch s.starttlsReply {
		case 0:
			s.send(c, [3]byte{'2', '2', '0'}, true, nil)
		case 1:
			s.send(c, [3]byte{'4', '5', '4'}, false, nil)
		case 2:
			s.send(c, [3]byte{'5', '0', '1'}, false, nil)
		default:
			s.out = append(s.out, "this is not an SMTP reply\r\n"...)
		}
	case "AUTH":
		if s.authFn != nil {
			s.authFn(s, string(line))
			return
		}
		s.send(c, [3]byte{'5', '0', '2'}, false, nil)
	default:
		s.send(c, [3]byte{'5', '0', '0'}, false, nil)
	}
}

// hxPath extracts the text between the first '<' and the last '>' of a
// MAIL/RCPT line (lenient; the strict parser is in the C05 harness).
func hxPath(line []byte) string {
	i := 0
	for i < len(line) && line[i] != '<' {
		i++
	}
	j := len(line) - 1
	for j > i && line[j] != '>' {
		j--
	}
	if i >= len(line) || j <= i {
		return ""
	}
	return string(line[i+1 : j])
}

// hxCheckParams asserts that ESMTP parameters are only used when the matching
// extension was advertised in the most recent EHLO reply.
func hxCheckParams(s *hxSrv, c *hxCmd, line []byte) {
	if !s.monitor {
		return
	}
	// parameters follow the closing '>'
	j := len(line) - 1
	for j >= 0 && line[j] != '>' {
		j--
	}
	if j < 0 {
		return
	}
	rest := line[j+1:]
	i := 0
	for i < len(rest) {
		for i < len(rest) && rest[i] == ' ' {
			i++
		}
		k := i
		for k < len(rest) && rest[k] != ' ' {
			k++
		}
		if k > i {
			p := hxUpper(rest[i:k])
			switch {
			case p == "BODY=8BITMIME":
				svAssert(hxHasCap(s.ehloCaps, "8BITMIME"), "C04 BODY=8BITMIME without advertised 8BITMIME")
			case p == "SMTPUTF8":
				svAssert(hxHasCap(s.ehloCaps, "SMTPUTF8"), "C04 SMTPUTF8 without advertised SMTPUTF8")
			case len(p) >= 4 && p[:4] == "RET=":
				svAssert(hxHasCap(s.ehloCaps, "DSN"), "C04 RET= without advertised DSN")
			case len(p) >= 7 && p[:7] == "NOTIFY=":
				svAssert(hxHasCap(s.ehloCaps, "DSN"), "C04 NOTIFY= without advertised DSN")
			default:
				svAssert(false, "C04 unknown ESMTP parameter")
			}
		}
		i = k
	}
}

// feed consumes bytes written by the client.
func (s *hxSrv) feed(p []byte) {
	s.in = append(s.in, p...)
	for {
		if s.dropped {
			s.afterDrop += len(s.in)
			s.in = nil
			return
		}
		if s.inData {
			// end of data: CRLF . CRLF (or . CRLF as the very first line)
			end := -1
			if len(s.payload) == 0 && len(s.in) >= 3 && s.in[0] == '.' && s.in[1] == '\r' && s.in[2] == '\n' {
				end = 0
				s.in = s.in[3:]
			} else {
				for i := 0; i+4 < len(s.in)+0 && i+5 <= len(s.in); i++ {
					if s.in[i] == '\r' && s.in[i+1] == '\n' && s.in[i+2] == '.' && s.in[i+3] == '\r' && s.in[i+4] == '\n' {
						end = i + 2
						break
					}
				}
				if end >= 0 {
					s.payload = append(s.payload, s.in[:end]...)
					s.in = s.in[end+3:]
				}
			}
			if end < 0 {
				// keep the last 4 bytes in the buffer (a terminator may be split)
				if len(s.in) > 4 {
					s.payload = append(s.payload, s.in[:len(s.in)-4]...)
					s.in = s.in[len(s.in)-4:]
				}
				return
			}
			c := &hxCmd{verb: "EOD", state: s.state, mark: "cmd" + string(rune('A'+len(s.cmds)%26)) + string(rune('a'+len(s.cmds)/26))}
			s.cmds = append(s.cmds, c)
			if s.stallAt >= 0 && len(s.cmds)-1 >= s.stallAt {
				s.stalled = true
				s.inData = false
				return
			}
			code, drop := s.pick(c, "250")
			s.inData = false
			s.state = hxStIdle
			if drop {
				s.dropped = true
				continue
			}
			s.eodCodes = append(s.eodCodes, code)
			if code[0] == '2' {
				s.commits = append(s.commits, hxCommit{from: s.from, rcpts: s.rcpts, data: hxUnstuff(s.payload)})
			}
			s.from, s.rcpts, s.rcptRejected = "", nil, false
			s.send(c, code, code[0] == '2', nil)
			continue
		}
		// command mode: one CRLF terminated line
		e := -1
		for i := 0; i+1 < len(s.in); i++ {
			if s.in[i] == '\r' && s.in[i+1] == '\n' {
				e = i
				break
			}
		}
		if e < 0 {
			return
		}
		line := s.in[:e]
		s.in = s.in[e+2:]
		s.respond(append([]byte{}, line...))
	}
}

// hxUnstuff removes the dot-stuffing of a DATA payload.
func hxUnstuff(p []byte) []byte {
	var out []byte
	bol := true
	for i := 0; i < len(p); i++ {
		c := p[i]
		if bol && c == '.' {
			bol = false
			continue
		}
		out = append(out, c)
		bol = c == '\n'
	}
	return out
}

// ---- net.Conn

type hxConn struct {
	s *hxSrv
}

func (c *hxConn) Read(p []byte) (int, error) {
	s := c.s
	if s.closed {
		return 0, &hxNetErr{"use of closed network connection"}
	}
	if len(s.out) == 0 {
		if s.dropped {
			return 0, io.EOF
		}
		if s.stalled {
			// silent peer: a real read returns only when a deadline expires
			if s.deadlineSet {
				return 0, hxTimeoutErr{}
			}
			step := "greeting"
			if len(s.cmds) > 0 {
				step = s.cmds[len(s.cmds)-1].verb
			}
			svAssert(false, "C17 blocking read with no deadline armed ("+s.phase+": waiting for the reply to "+step+")")
			// the violation is recorded; let the call return (as if a deadline had
			// fired) so that the run - and a native replay - terminates
			return 0, hxTimeoutErr{}
		}
		s.blockedRead = true
		return 0, io.EOF
	}
	if s.probe != nil {
		svAssert(s.probe(), "C13 read from the shared connection without the send lock")
	}
	n := copy(p, s.out)
	s.out = s.out[n:]
	s.greetingRead = true
	if s.onDrained != nil && len(s.out) == 0 {
		s.onDrained()
	}
	return n, nil
}

func (c *hxConn) Write(p []byte) (int, error) {
	s := c.s
	if s.closed {
		return 0, &hxNetErr{"use of closed network connection"}
	}
	if s.monitor {
		svAssert(s.greetingRead, "C04 data sent before the greeting was read")
	}
	if s.contentStall && s.inData {
		// the peer no longer drains the connection: once the buffers are full a
		// write returns only when a write deadline expires
		s.stalled = true
		if !s.wdlSet {
			svAssert(false, "C17 blocking write with no write deadline armed ("+s.phase+": the server stopped reading during the message content)")
		}
		return 0, hxTimeoutErr{}
	}
	if s.probe != nil {
		svAssert(s.probe(), "C13 write to the shared connection without the send lock")
	}
	s.clear = append(s.clear, append([]byte{}, p...))
	s.feed(p)
	return len(p), nil
}

func (c *hxConn) Close() error {
	c.s.closeCalls++
	c.s.closed = true
	return nil
}
func (c *hxConn) LocalAddr() net.Addr  { return hxAddr{} }
func (c *hxConn) RemoteAddr() net.Addr { return hxAddr{} }
func (c *hxConn) SetDeadline(t time.Time) error {
	c.s.wdlSet = !t.IsZero()
	return c.setReadDeadline(t)
}

func (c *hxConn) setReadDeadline(t time.Time) error {
	c.s.deadline, c.s.deadlineSet = t, !t.IsZero()
	c.s.deadlineCalls++
	if c.s.expectTimeout > 0 && !t.IsZero() {
		d := time.Until(t)
		svAssert(d <= c.s.expectTimeout, "C17 deadline armed later than now + timeout")
		svAssert(d > c.s.expectTimeout-5*time.Second, "C17 deadline armed much earlier than now + timeout")
		c.s.armChecks++
	}
	return nil
}
func (c *hxConn) SetReadDeadline(t time.Time) error { return c.setReadDeadline(t) }
func (c *hxConn) SetWriteDeadline(t time.Time) error {
	c.s.wdlSet = !t.IsZero()
	return nil
}
