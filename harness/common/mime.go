package PKGNAME

// An independent, strict reader for RFC 5322 / 2045 / 2046 / 2047 messages,
// written for the harnesses (it shares no code with go-mail or with Go's
// mime/multipart). It works on byte slices whose cells may be symbolic.

type hxHdr struct {
	name string // as written
	val  []byte // unfolded, leading blanks removed
}

type hxEnt struct {
	hdrs    []hxHdr
	mtype   string // lower-case type/subtype ("" if no Content-Type)
	params  []hxHdr
	cte     string
	disp    string
	dparams []hxHdr
	body    []byte
	kids    []*hxEnt
	bad     string
	raw     []byte // the bytes this entity was parsed from
}

func hxLower(b []byte) string {
	r := make([]byte, len(b))
	for i, c := range b {
		if c >= 'A' && c <= 'Z' {
			c += 32
		}
		r[i] = c
	}
	return string(r)
}

func hxTrim(b []byte) []byte {
	for len(b) > 0 && (b[0] == ' ' || b[0] == '\t') {
		b = b[1:]
	}
	for len(b) > 0 && (b[len(b)-1] == ' ' || b[len(b)-1] == '\t') {
		b = b[:len(b)-1]
	}
	return b
}

// hxSplitHeader parses a header section starting at data[0]. It returns the
// fields and the offset of the first body byte (after the blank line), or
// bad != "" on a structural error. A section may also end at end of data.
func hxSplitHeader(data []byte) (hdrs []hxHdr, bodyOff int, bad string) {
	i := 0
	for {
		if i >= len(data) {
			return hdrs, i, "no-blank-line"
		}
		// find end of line
		j := i
		for j < len(data) && data[j] != '\r' && data[j] != '\n' {
			j++
		}
		if j >= len(data) {
			return hdrs, j, "unterminated-header-line"
		}
		if data[j] == '\n' {
			return hdrs, j, "bare-LF-in-header"
		}
		if j+1 >= len(data) || data[j+1] != '\n' {
			return hdrs, j, "bare-CR-in-header"
		}
		line := data[i:j]
		i = j + 2
		if len(line) == 0 {
			return hdrs, i, ""
		}
		if line[0] == ' ' || line[0] == '\t' {
			if len(hdrs) == 0 {
				return hdrs, i, "continuation-before-field"
			}
			h := &hdrs[len(hdrs)-1]
			h.val = append(h.val, line...)
			continue
		}
		k := 0
		for k < len(line) && line[k] != ':' {
			c := line[k]
			if c <= 32 || c >= 127 {
				return hdrs, i, "bad-field-name"
			}
			k++
		}
		if k >= len(line) {
			return hdrs, i, "line-without-colon"
		}
		if k == 0 {
			return hdrs, i, "empty-field-name"
		}
		v := line[k+1:]
		for len(v) > 0 && (v[0] == ' ' || v[0] == '\t') {
			v = v[1:]
		}
		hdrs = append(hdrs, hxHdr{name: string(line[:k]), val: append([]byte{}, v...)})
	}
}

func hxGet(hdrs []hxHdr, lname string) ([]byte, int) {
	var v []byte
	n := 0
	for _, h := range hdrs {
		if hxLower([]byte(h.name)) == lname {
			if n == 0 {
				v = h.val
			}
			n++
		}
	}
	return v, n
}

// hxParams parses `token; k=v; k="v"` into the leading token (lower-cased)
// and the parameters (names lower-cased, quotes removed, \-escapes resolved).
func hxParams(v []byte) (string, []hxHdr, string) {
	var parts [][]byte
	start := 0
	inq := false
	for i := 0; i < len(v); i++ {
		c := v[i]
		if inq {
			if c == '\\' && i+1 < len(v) {
				i++
				continue
			}
			if c == '"' {
				inq = false
			}
			continue
		}
		if c == '"' {
			inq = true
		} else if c == ';' {
			parts = append(parts, v[start:i])
			start = i + 1
		}
	}
	if inq {
		return "", nil, "unterminated-quote"
	}
	parts = append(parts, v[start:])
	tok := hxLower(hxTrim(parts[0]))
	var ps []hxHdr
	for _, p := range parts[1:] {
		p = hxTrim(p)
		if len(p) == 0 {
			continue
		}
		e := 0
		for e < len(p) && p[e] != '=' {
			e++
		}
		if e >= len(p) {
			return tok, ps, "param-without-equals"
		}
		name := hxLower(hxTrim(p[:e]))
		val := hxTrim(p[e+1:])
		if len(val) >= 2 && val[0] == '"' && val[len(val)-1] == '"' {
			q := val[1 : len(val)-1]
			var u []byte
			for i := 0; i < len(q); i++ {
				if q[i] == '\\' && i+1 < len(q) {
					i++
				}
				u = append(u, q[i])
			}
			val = u
		} else {
			for _, c := range val {
				if c == '"' || c == ' ' || c == '(' || c == ')' || c == '<' || c == '>' || c == '@' || c == ',' || c == ':' || c == '\\' || c == '/' || c == '[' || c == ']' || c == '?' || c == '=' {
					return tok, ps, "unquoted-param-with-tspecial"
				}
			}
		}
		ps = append(ps, hxHdr{name: name, val: val})
	}
	return tok, ps, ""
}

func hxParam(ps []hxHdr, name string) ([]byte, bool) {
	for _, p := range ps {
		if p.name == name {
			return p.val, true
		}
	}
	return nil, false
}

func hxHasPrefixAt(data []byte, at int, pre []byte) bool {
	if at+len(pre) > len(data) {
		return false
	}
	for i := range pre {
		if data[at+i] != pre[i] {
			return false
		}
	}
	return true
}

// hxParseEntity parses one MIME entity (header section + body).
func hxParseEntity(data []byte, depth int) *hxEnt {
	e := &hxEnt{raw: data}
	hdrs, off, bad := hxSplitHeader(data)
	e.hdrs = hdrs
	if bad != "" {
		e.bad = bad
		return e
	}
	body := data[off:]
	if ct, n := hxGet(hdrs, "content-type"); n > 0 {
		if n > 1 {
			e.bad = "duplicate-content-type"
			return e
		}
		e.mtype, e.params, bad = hxParams(ct)
		if bad != "" {
			e.bad = "content-type:" + bad
			return e
		}
	}
	if v, n := hxGet(hdrs, "content-transfer-encoding"); n > 0 {
		if n > 1 {
			e.bad = "duplicate-cte"
			return e
		}
		e.cte = hxLower(hxTrim(v))
	}
	if v, n := hxGet(hdrs, "content-disposition"); n > 0 {
		if n > 1 {
			e.bad = "duplicate-disposition"
			return e
		}
		e.disp, e.dparams, bad = hxParams(v)
		if bad != "" {
			e.bad = "content-disposition:" + bad
			return e
		}
	}
	if len(e.mtype) >= 10 && e.mtype[:10] == "multipart/" {
		if depth > 6 {
			e.bad = "nesting-too-deep"
			return e
		}
		b, ok := hxParam(e.params, "boundary")
		if !ok || len(b) == 0 {
			e.bad = "multipart-without-boundary"
			return e
		}
		delim := append([]byte("--"), b...)
		// locate delimiter lines: at start of body or right after CRLF
		pos := 0
		partStart := -1
		closed := false
		for pos <= len(body) {
			atLineStart := pos == 0 || (pos >= 2 && body[pos-2] == '\r' && body[pos-1] == '\n')
			if atLineStart && hxHasPrefixAt(body, pos, delim) {
				after := pos + len(delim)
				isClose := hxHasPrefixAt(body, after, []byte("--"))
				if isClose {
					after += 2
				}
				// rest of the delimiter line: optional blanks then CRLF or end of data
				q := after
				for q < len(body) && (body[q] == ' ' || body[q] == '\t') {
					q++
				}
				lineEnd := -1
				if q == len(body) {
					lineEnd = q
				} else if hxHasPrefixAt(body, q, []byte("\r\n")) {
					lineEnd = q + 2
				}
				if lineEnd >= 0 {
					if partStart >= 0 {
						end := pos - 2 // CRLF before the delimiter belongs to it
						if end < partStart {
							end = partStart
						}
						e.kids = append(e.kids, hxParseEntity(body[partStart:end], depth+1))
					}
					if isClose {
						closed = true
						// epilogue must be empty
						if lineEnd < len(body) {
							e.bad = "data-after-closing-delimiter"
						}
						break
					}
					partStart = lineEnd
					pos = lineEnd
					continue
				}
			}
			// advance to next line start
			nx := pos
			for nx < len(body) && !(body[nx] == '\r' && nx+1 < len(body) && body[nx+1] == '\n') {
				nx++
			}
			if nx >= len(body) {
				break
			}
			pos = nx + 2
		}
		if !closed && e.bad == "" {
			e.bad = "multipart-not-closed"
		}
		for _, k := range e.kids {
			if k.bad != "" && e.bad == "" {
				e.bad = "part:" + k.bad
			}
		}
		return e
	}
	e.body = body
	return e
}

// hxLeaves returns the leaf entities in document order.
func hxLeaves(e *hxEnt, out []*hxEnt) []*hxEnt {
	if len(e.mtype) >= 10 && e.mtype[:10] == "multipart/" {
		for _, k := range e.kids {
			out = hxLeaves(k, out)
		}
		return out
	}
	return append(out, e)
}

// ---- transfer decodings

var hxB64Inv [256]byte

func init() {
	for i := range hxB64Inv {
		hxB64Inv[i] = 0xff
	}
	const tbl = "ABCDEFGHIJKLMNOPQRSTUVWXYZabcdefghijklmnopqrstuvwxyz0123456789+/"
	for i := 0; i < 64; i++ {
		hxB64Inv[tbl[i]] = byte(i)
	}
}

// hxB64Decode decodes base64 text, ignoring CRLF line breaks. ok=false on any
// other foreign character or bad padding.
func hxB64Decode(in []byte) ([]byte, bool) {
	var sx []byte
	for i := 0; i < len(in); i++ {
		c := in[i]
		if c == '\r' || c == '\n' {
			continue
		}
		sx = append(sx, c)
	}
	if len(sx)%4 != 0 {
		return nil, false
	}
	var out []byte
	var bad byte
	for i := 0; i < len(sx); i += 4 {
		pad := 0
		if sx[i+3] == '=' {
			pad = 1
			if sx[i+2] == '=' {
				pad = 2
			}
			if i+4 != len(sx) {
				return nil, false
			}
		}
		var v [4]byte
		for k := 0; k < 4-pad; k++ {
			v[k] = hxB64Inv[sx[i+k]]
			bad |= v[k] & 0xc0
		}
		out = append(out, v[0]<<2|v[1]>>4)
		if pad < 2 {
			out = append(out, v[1]<<4|v[2]>>2)
		}
		if pad < 1 {
			out = append(out, v[2]<<6|v[3])
		}
	}
	if bad != 0 {
		return nil, false
	}
	return out, true
}

var hxHexInv [256]byte

func init() {
	for i := range hxHexInv {
		hxHexInv[i] = 0xff
	}
	for i := 0; i < 10; i++ {
		hxHexInv['0'+i] = byte(i)
	}
	for i := 0; i < 6; i++ {
		hxHexInv['A'+i] = byte(10 + i)
		hxHexInv['a'+i] = byte(10 + i)
	}
}

// hxHexVal is a table lookup so that symbolic digits do not fork paths.
func hxHexVal(c byte) (byte, bool) {
	v := hxHexInv[c]
	return v, v != 0xff
}

// hxQPDecode decodes quoted-printable (RFC 2045 6.7): soft line breaks
// removed, trailing white space on a line is transport padding, =XX decoded.
func hxQPDecode(in []byte) ([]byte, bool) {
	var out []byte
	i := 0
	for i < len(in) {
		c := in[i]
		if c == '=' {
			if i+2 < len(in)+0 && in[i+1] == '\r' && in[i+2] == '\n' {
				i += 3
				continue
			}
			if i+2 >= len(in) {
				return nil, false
			}
			h := hxHexInv[in[i+1]]
			l := hxHexInv[in[i+2]]
			if (h|l)&0xf0 != 0 {
				return nil, false
			}
			out = append(out, h<<4|l)
			i += 3
			continue
		}
		out = append(out, c)
		i++
	}
	return out, true
}

// hxDecodeWords decodes RFC 2047 encoded-words (UTF-8, Q or B) in a header
// value; white space between adjacent encoded-words is dropped.
func hxDecodeWords(v []byte) ([]byte, bool) {
	var out []byte
	i := 0
	lastWasWord := false
	pendingWS := 0
	for i < len(v) {
		if v[i] == '=' && i+1 < len(v) && v[i+1] == '?' {
			// =?charset?X?text?=
			j := i + 2
			for j < len(v) && v[j] != '?' {
				j++
			}
			if j+2 < len(v) && v[j+2] == '?' {
				enc := v[j+1]
				k := j + 3
				for k+1 < len(v) && !(v[k] == '?' && v[k+1] == '=') {
					k++
				}
				if k+1 < len(v) {
					text := v[j+3 : k]
					var dec []byte
					ok := true
					if enc == 'q' || enc == 'Q' {
						var tmp []byte
						for _, c := range text {
							if c == '_' {
								c = ' '
							}
							tmp = append(tmp, c)
						}
						dec, ok = hxQPDecode(tmp)
					} else if enc == 'b' || enc == 'B' {
						dec, ok = hxB64Decode(text)
					} else {
						ok = false
					}
					if !ok {
						return nil, false
					}
					if lastWasWord {
						out = out[:len(out)-pendingWS]
					}
					// honour the charset label: ISO-8859-x text is transcoded to UTF-8
					// (Latin-1 mapping), UTF-8 / US-ASCII text is taken as it is
					cs := hxLower(v[i+2 : j])
					if len(cs) >= 9 && cs[:9] == "iso-8859-" {
						var u []byte
						for _, b := range dec {
							if b < 0x80 {
								u = append(u, b)
							} else {
								u = append(u, 0xc0|b>>6, 0x80|b&0x3f)
							}
						}
						dec = u
					}
					out = append(out, dec...)
					lastWasWord = true
					pendingWS = 0
					i = k + 2
					continue
				}
			}
		}
		c := v[i]
		if c == ' ' || c == '\t' {
			pendingWS++
		} else {
			pendingWS = 0
			lastWasWord = false
		}
		out = append(out, c)
		i++
	}
	return out, true
}
