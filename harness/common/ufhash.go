package PKGNAME

// UF models of the hash primitives (installed through the override table), a
// recording random source, the PRECIS identity model and the harness' own
// base64 encoder. Shared by the harnesses of package mail and package smtp.

import (
	"crypto/rand"
	"hash"

	"golang.org/x/text/secure/precis"
)

// ---- uninterpreted hash functions

type hxUFHash struct {
	tag  string
	size int
	bs   int
	key  []byte
	buf  []byte
}

func (h *hxUFHash) Write(p []byte) (int, error) { h.buf = append(h.buf, p...); return len(p), nil }
func (h *hxUFHash) Sum(b []byte) []byte {
	return append(b, svUF(h.tag, h.size, h.key, h.buf)...)
}
func (h *hxUFHash) Reset()         { h.buf = nil }
func (h *hxUFHash) Size() int      { return h.size }
func (h *hxUFHash) BlockSize() int { return h.bs }

// The model digests are 5 bytes wide (8 base64 characters incl. one '=', the
// same padding class as the real 32- and 20-byte digests): the mechanisms
// never look inside a digest, so the width only scales the number of
// symbolic bytes the solver has to carry.
func hxSHA1New() hash.Hash   { return &hxUFHash{tag: "sha1", size: 5, bs: 64} }
func hxSHA256New() hash.Hash { return &hxUFHash{tag: "sha256", size: 5, bs: 64} }
func hxMD5New() hash.Hash    { return &hxUFHash{tag: "md5", size: 4, bs: 64} }

func hxHMACNew(h func() hash.Hash, key []byte) hash.Hash {
	inner := h().(*hxUFHash)
	return &hxUFHash{tag: "hmac-" + inner.tag, size: inner.size, bs: inner.bs, key: append([]byte{}, key...)}
}

func hxHMACEqual(a, b []byte) bool { return hxHMACEqualM(a, b) }

func hxHMACEqualM(a, b []byte) bool {
	if len(a) != len(b) {
		return false
	}
	var d byte
	for i := range a {
		d |= a[i] ^ b[i]
	}
	return d == 0
}

// hxPBKDF2 models internal/pbkdf2.Key as one uninterpreted function of
// (password, salt, iterations, length, hash).
func hxPBKDF2(password, salt []byte, iter, keyLen int, h func() hash.Hash) []byte {
	inner := h().(*hxUFHash)
	it := []byte{byte(iter >> 24), byte(iter >> 16), byte(iter >> 8), byte(iter)}
	return svUF("pbkdf2-"+inner.tag, keyLen, password, salt, it)
}

// hxPrecisIdentity models precis.OpaqueString.String under the stated
// assumption that all bytes are printable ASCII (where OpaqueString is the
// identity); anything else is outside the claim.
func hxPrecisIdentity(p *precis.Profile, s string) (string, error) {
	for i := 0; i < len(s); i++ {
		svAssume(s[i] >= 0x20)
		svAssume(s[i] <= 0x7e)
	}
	return s, nil
}

// ---- recording random source

type hxRandRec struct {
	reads    [][]byte
	concrete bool // distinct concrete bytes per call instead of symbolic ones
	symPrefix int // >0: only the first symPrefix bytes of each read are symbolic
}

func (r *hxRandRec) Read(p []byte) (int, error) {
	var b []byte
	if r.concrete {
		b = make([]byte, len(p))
		for i := range b {
			b[i] = byte((len(r.reads)+1)*131 + i*37 + 11)
		}
	} else if r.symPrefix > 0 && r.symPrefix < len(p) {
		b = make([]byte, len(p))
		for i := range b {
			b[i] = byte((len(r.reads)+1)*131 + i*37 + 11)
		}
		copy(b, svBytes("rand", r.symPrefix))
	} else {
		b = svBytes("rand", len(p))
	}
	copy(p, b)
	r.reads = append(r.reads, append([]byte{}, b...))
	return len(p), nil
}

func hxInstallRand() *hxRandRec {
	r := &hxRandRec{}
	rand.Reader = r
	return r
}


const hxB64Tbl = "ABCDEFGHIJKLMNOPQRSTUVWXYZabcdefghijklmnopqrstuvwxyz0123456789+/"

// hxB64Enc is the harness' own base64 encoder (reference side).
func hxB64Enc(in []byte) []byte {
	var out []byte
	for i := 0; i < len(in); i += 3 {
		var v [3]byte
		n := copy(v[:], in[i:])
		out = append(out, hxB64Tbl[v[0]>>2], hxB64Tbl[(v[0]&3)<<4|v[1]>>4])
		if n > 1 {
			out = append(out, hxB64Tbl[(v[1]&15)<<2|v[2]>>6])
		} else {
			out = append(out, '=')
		}
		if n > 2 {
			out = append(out, hxB64Tbl[v[2]&63])
		} else {
			out = append(out, '=')
		}
	}
	return out
}

func hxB64DecStd(in []byte) ([]byte, bool) {
	if len(in)%4 != 0 {
		return nil, false
	}
	var inv [256]byte
	for i := range inv {
		inv[i] = 0xff
	}
	for i := 0; i < 64; i++ {
		inv[hxB64Tbl[i]] = byte(i)
	}
	var out []byte
	for i := 0; i < len(in); i += 4 {
		pad := 0
		if in[i+3] == '=' {
			pad = 1
			if in[i+2] == '=' {
				pad = 2
			}
		}
		var v [4]byte
		for k := 0; k < 4-pad; k++ {
			v[k] = inv[in[i+k]]
		}
		out = append(out, v[0]<<2|v[1]>>4)
		if pad < 2 {
			out = append(out, v[1]<<4|v[2]>>2)
		}
		if pad < 1 {
			out = append(out, v[2]<<6|v[3])
		}
	}
	return out, true
}

func hxHasPrefix(b []byte, p string) bool {
	if len(b) < len(p) {
		return false
	}
	for i := 0; i < len(p); i++ {
		if b[i] != p[i] {
			return false
		}
	}
	return true
}

