package PKGNAME

import (
	"crypto/hmac"
	"crypto/sha256"

	"github.com/wneessen/go-mail/internal/pbkdf2"
)

// Reference SCRAM server of the C15 harnesses (shared by the smtp-level and the
// mail.Client-level run).

const (
	hxM_EmptyChallenge = iota
	hxM_ValidServerFirst
	hxM_ForeignNonce
	hxM_MalformedFirst
	hxM_ValidFinal
	hxM_ForgedFinal
	hxM_EmptyStateFinal
	hxM_StaleFinal
	hxM_Junk
	hxM_Success235
	hxM_Fail535
	hxM_Count
)

var hxMsgNames = []string{"empty-challenge", "valid-server-first", "foreign-nonce", "malformed-server-first", "valid-server-final",
	"forged-server-final", "empty-state-server-final", "stale-server-final", "junk", "235", "535"}

type hxScramSrv struct {
	password []byte
	maxMsgs  int
	sent     int
	// exchange state as the reference server sees it
	active        bool // a client-first of the running exchange was received
	clientNonce   []byte
	firstBare     []byte
	serverFirst   []byte // last server-first sent in the running exchange
	combinedNonce []byte
	salt          []byte
	firstAccepted bool // the client answered that server-first with a client-final
	authMessage   []byte
	lastWasFinal  bool   // the previous server message was a v= message
	lastFinal     []byte // its signature text
	lastFinalRef  []byte // the reference signature at that time (nil: no exchange to sign)
	ackedValid    bool
	staleSig      []byte // valid signature of the most recent abandoned exchange
	trace         []string
	iter          int   // iteration count announced in the server-first of the running exchange (0: the fixed 4096)
	iterSet       bool
	script        []int // if set: the messages to send, in order (an honest or partly honest server); afterwards 535
}

func (z *hxScramSrv) refSignature() []byte {
	if !z.firstAccepted {
		return nil
	}
	var salted []byte
	if z.iterSet {
		// run with small iteration counts: the library's PBKDF2 is interpreted (not
		// replaced by a UF) and the reference is the harness' own Hi() of RFC 5802;
		// a non-positive count is read as one round
		n := z.iter
		if n < 1 {
			n = 1
		}
		salted = hxHi(z.password, z.salt, n)
	} else {
		salted = pbkdf2.Key(z.password, z.salt, 4096, sha256.New().Size(), sha256.New)
	}
	mac := hmac.New(sha256.New, salted)
	mac.Write([]byte("Server Key"))
	serverKey := mac.Sum(nil)
	mac2 := hmac.New(sha256.New, serverKey)
	mac2.Write(z.authMessage)
	return hxB64Enc(mac2.Sum(nil))
}

// hxHi is Hi(str, salt, i) of RFC 5802 section 2.2, written independently of
// internal/pbkdf2.
func hxHi(str, salt []byte, n int) []byte {
	mac := hmac.New(sha256.New, str)
	mac.Write(salt)
	mac.Write([]byte{0, 0, 0, 1})
	u := mac.Sum(nil)
	out := append([]byte{}, u...)
	for i := 1; i < n; i++ {
		m := hmac.New(sha256.New, str)
		m.Write(u)
		u = m.Sum(nil)
		for k := range out {
			out[k] ^= u[k]
		}
	}
	return out
}

func (z *hxScramSrv) emptyStateSignature() []byte {
	salted := []byte(nil)
	mac := hmac.New(sha256.New, salted)
	mac.Write([]byte("Server Key"))
	serverKey := mac.Sum(nil)
	mac2 := hmac.New(sha256.New, serverKey)
	mac2.Write(nil)
	return hxB64Enc(mac2.Sum(nil))
}

func (z *hxScramSrv) handle(s *hxSrv, line string) {
	c := s.cmds[len(s.cmds)-1]
	c.verb = "AUTH"
	l := []byte(line)
	// interpret what the client sent
	switch {
	case hxHasPrefix(l, "AUTH "):
		// a new AUTH command (possibly on a later connection): whatever exchange
		// was running or completed before is history; its signature is the one a
		// replaying server could present
		if z.active && z.firstAccepted {
			z.staleSig = z.refSignature()
		}
		z.active, z.firstAccepted, z.lastWasFinal, z.ackedValid = false, false, false, false
		z.serverFirst = nil
	case line == "*":
		z.active, z.firstAccepted, z.lastWasFinal = false, false, false
		s.inAuth = false
		s.out = append(s.out, "501 5.7.0 aborted\r\n"...)
		return
	case len(l) == 0:
		// the client's acknowledgement of a server-final message
		svReach("client-ack")
		svAssert(z.lastWasFinal, "C15 ack-without-server-final")
		if z.lastWasFinal {
			svAssert(z.active && z.firstAccepted, "C15 server-final-outside-exchange acknowledged by the client")
			if z.active && z.firstAccepted {
				svAssert(hxEqBytes(z.lastFinal, z.lastFinalRef), "C15 signature-mismatch-accepted")
				z.ackedValid = true
			}
		}
	default:
		// client-first ("n,,n=...") and client-final ("c=biws,r=...") are told
		// apart by the base64 of their constant prefixes; the symbolic tail is
		// not decoded
		if hxHasPrefix(l, "biwsbj") {
			dec, ok := hxB64DecStd(l)
			if ok {
				if z.active && z.firstAccepted {
					z.staleSig = z.refSignature()
				}
				z.active, z.firstAccepted, z.ackedValid = true, false, false
				z.firstBare = append([]byte{}, dec[3:]...)
				k := len(dec) - 1
				for k >= 0 && !(dec[k] == 'r' && k+1 < len(dec) && dec[k+1] == '=' && k > 0 && dec[k-1] == ',') {
					k--
				}
				z.clientNonce = append([]byte{}, dec[k+2:]...)
			}
		} else if hxHasPrefix(l, "Yz1iaXdz") && z.active && z.serverFirst != nil {
			z.firstAccepted = true
			// AuthMessage = client-first-bare , server-first , client-final-without-proof
			wp := append([]byte("c=biws,r="), z.combinedNonce...)
			z.authMessage = append(append(append(append([]byte{}, z.firstBare...), ','), z.serverFirst...), ',')
			z.authMessage = append(z.authMessage, wp...)
		}
	}
	z.lastWasFinal = false
	if z.sent >= z.maxMsgs {
		s.inAuth = false
		s.out = append(s.out, "535 5.7.8 script exhausted\r\n"...)
		return
	}
	z.sent++
	var m int
	if z.script != nil {
		if z.sent > len(z.script) {
			s.inAuth = false
			s.out = append(s.out, "535 5.7.8 script exhausted\r\n"...)
			return
		}
		m = z.script[z.sent-1]
	} else {
		m = svPick("server-msg", hxM_Count)
	}
	z.trace = append(z.trace, hxMsgNames[m])
	var payload []byte
	reply334 := true
	switch m {
	case hxM_EmptyChallenge:
	case hxM_ValidServerFirst:
		if !z.active {
			svAssume(false) // only meaningful inside an exchange
		}
		z.salt = []byte{0x5a, 0xa5}
		suffix := []byte("Sx")
		if svParam("symsalt", 0) == 1 {
			z.salt = svBytes("salt", 2)
			suffix = svBytes("nonce-suffix", 2)
			for _, b := range suffix {
				svAssume(b >= 0x21)
				svAssume(b <= 0x7e)
				svAssume(b != ',')
			}
		}
		z.combinedNonce = append(append([]byte{}, z.clientNonce...), suffix...)
		sf := append(append([]byte("r="), z.clientNonce...), suffix...)
		its := "4096"
		z.iterSet = false
		if ni := svParam("iters", 0); ni > 0 {
			// small and degenerate iteration counts (a server may announce any)
			k := svPick("iteration-count", ni)
			its = []string{"0", "1", "2", "-1", "3"}[k]
			z.iter = []int{0, 1, 2, -1, 3}[k]
			z.iterSet = true
			svReach("iteration-count-" + its)
		}
		sf = append(append(append(sf, ",s="...), hxB64Enc(z.salt)...), (",i=" + its)...)
		z.serverFirst = sf
		payload = sf
	case hxM_ForeignNonce:
		nb := svBytes("foreign-nonce", 3)
		for _, b := range nb {
			svAssume(b >= 0x21)
			svAssume(b <= 0x7e)
			svAssume(b != ',')
		}
		payload = append(append([]byte("r="), nb...), ",s=QUJD,i=4096"...)
		z.serverFirst = nil
	case hxM_MalformedFirst:
		payload = []byte("r=abc")
		z.serverFirst = nil
	case hxM_ValidFinal:
		ref := z.refSignature()
		if ref == nil {
			svAssume(false) // nothing to sign: covered by the empty-state / forged classes
		}
		payload = append([]byte("v="), ref...)
		z.lastWasFinal, z.lastFinal, z.lastFinalRef = true, ref, ref
	case hxM_ForgedFinal:
		forged := hxB64Enc(svBytes("forged-sig", 5))
		payload = append([]byte("v="), forged...)
		z.lastWasFinal, z.lastFinal, z.lastFinalRef = true, forged, z.refSignature()
	case hxM_EmptyStateFinal:
		es := z.emptyStateSignature()
		payload = append([]byte("v="), es...)
		z.lastWasFinal, z.lastFinal, z.lastFinalRef = true, es, z.refSignature()
	case hxM_StaleFinal:
		if z.staleSig == nil || (z.active && z.firstAccepted) {
			svAssume(false) // only meaningful after an exchange was abandoned and before a new server-first was accepted
		}
		payload = append([]byte("v="), z.staleSig...)
		z.lastWasFinal, z.lastFinal, z.lastFinalRef = true, z.staleSig, z.refSignature()
	case hxM_Junk:
		payload = svBytes("junk", 2)
	case hxM_Success235:
		reply334 = false
		s.inAuth = false
		s.out = append(s.out, "235 2.7.0 authentication successful\r\n"...)
	case hxM_Fail535:
		reply334 = false
		s.inAuth = false
		s.out = append(s.out, "535 5.7.8 authentication failed\r\n"...)
	}
	if reply334 {
		s.inAuth = true
		s.out = append(s.out, "334 "...)
		s.out = append(s.out, hxB64Enc(payload)...)
		s.out = append(s.out, '\r', '\n')
	}
}

