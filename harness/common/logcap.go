package PKGNAME

import (
	"fmt"

	"github.com/wneessen/go-mail/log"
)

// capturing logger shared by the C16 harnesses of both packages

type hxLogRec struct {
	dir    log.Direction
	format string
	parts  [][]byte // every message rendered to bytes
	ints   []int
}

type hxLogger struct {
	recs []hxLogRec
}

func (l *hxLogger) add(r log.Log) {
	rec := hxLogRec{dir: r.Direction, format: r.Format}
	for _, m := range r.Messages {
		switch v := m.(type) {
		case string:
			rec.parts = append(rec.parts, []byte(v))
		case []byte:
			rec.parts = append(rec.parts, v)
		case int:
			rec.ints = append(rec.ints, v)
		case error:
			rec.parts = append(rec.parts, []byte(v.Error()))
		default:
			rec.parts = append(rec.parts, []byte("<other>"))
		}
	}
	// a custom logger may dump the whole record, whatever fields it has
	rec.parts = append(rec.parts, []byte(fmt.Sprintf("%v", r)))
	l.recs = append(l.recs, rec)
}
func (l *hxLogger) Debugf(r log.Log) { l.add(r) }
func (l *hxLogger) Infof(r log.Log)  { l.add(r) }
func (l *hxLogger) Warnf(r log.Log)  { l.add(r) }
func (l *hxLogger) Errorf(r log.Log) { l.add(r) }

func hxBytesContain(hay, needle []byte) bool {
	if len(needle) == 0 {
		return false
	}
	for i := 0; i+len(needle) <= len(hay); i++ {
		if hxEqBytes(hay[i:i+len(needle)], needle) {
			return true
		}
	}
	return false
}

