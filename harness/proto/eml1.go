package mail

import (
	"errors"
	"net/textproto"
)

func svInt(name string) int         { return 0 }
func svByte(name string) byte       { return 0 }
func svBool(name string) bool       { return false }
func svAssume(b bool)               {}
func svAssert(b bool, msg string)   {}

func HarnessEML1() {
	eml := "From: a@b.c\r\nTo: d@e.f\r\nSubject: x\r\nDate: Sat, 29 Nov 2025 08:00:00 +0000\r\nMIME-Version: 1.0\r\nContent-Type: multipart/mixed; boundary=B\r\n\r\n--B\r\nContent-Type: text/plain; charset=UTF-8\r\nContent-Transfer-Encoding: quoted-printable\r\n\r\nhi =3D there\r\n--B\r\nContent-Disposition: attachment; filename=\"a.txt\"\r\nContent-Transfer-Encoding: base64\r\nContent-Type: text/plain\r\n\r\nYXR0YWNobWVudCBkYXRh\r\n--B--\r\n"
	m, err := EMLToMsgFromString(eml)
	if err != nil {
		println(err.Error())
	}
	svAssert(err == nil, "parse")
	svAssert(len(m.parts) == 1, "parts")
	svAssert(len(m.attachments) == 1, "att")
	c, _ := m.parts[0].GetContent()
	println(string(c), m.attachments[0].Name)
}

func HarnessRegexp() {
	e := &textproto.Error{Code: 550, Msg: "5.1.1 user unknown"}
	s := enhancedStatusCode(e, true)
	println(s)
	svAssert(s == "5.1.1", "esc")
	svAssert(errorCode(e) == 550, "code")
	svAssert(!isTempError(e), "temp")
	var se *SendError
	svAssert(!errors.As(e, &se), "as")
}
