package mail

func svInt(name string) int         { return 0 }
func svByte(name string) byte       { return 0 }
func svBool(name string) bool       { return false }
func svAssume(b bool)               {}
func svAssert(b bool, msg string)   {}

type recW struct{ buf []byte }

func (w *recW) Write(p []byte) (int, error) { w.buf = append(w.buf, p...); return len(p), nil }

func hexv(b byte) (byte, bool) {
	switch {
	case b >= '0' && b <= '9':
		return b - '0', true
	case b >= 'A' && b <= 'F':
		return b - 'A' + 10, true
	}
	return 0, false
}

// reference QP decoder (RFC 2045 6.7), strict
func qpDecode(in []byte) ([]byte, bool) {
	var out []byte
	for i := 0; i < len(in); i++ {
		c := in[i]
		if c != '=' {
			out = append(out, c)
			continue
		}
		if i+2 < len(in) && in[i+1] == '\r' && in[i+2] == '\n' {
			i += 2
			continue
		}
		if i+2 >= len(in) {
			return nil, false
		}
		h, ok1 := hexv(in[i+1])
		l, ok2 := hexv(in[i+2])
		if !ok1 || !ok2 {
			return nil, false
		}
		out = append(out, h<<4|l)
		i += 2
	}
	return out, true
}

func HarnessRenderQP() {
	n := 3
	body := make([]byte, n)
	for i := range body {
		body[i] = svByte("b")
	}
	m := NewMsg()
	_ = m.From("a@b.c")
	_ = m.To("d@e.f")
	m.SetBodyString(TypeTextPlain, string(body))
	w := &recW{}
	cnt, err := m.WriteTo(w)
	svAssert(err == nil, "writeto")
	svAssert(int(cnt) == len(w.buf), "count")
	// body = after first CRLFCRLF
	idx := -1
	for i := 0; i+3 < len(w.buf); i++ {
		if w.buf[i] == '\r' && w.buf[i+1] == '\n' && w.buf[i+2] == '\r' && w.buf[i+3] == '\n' {
			idx = i + 4
			break
		}
	}
	svAssert(idx > 0, "header end")
	dec, ok := qpDecode(w.buf[idx:])
	svAssert(ok, "decodable")
	// canonical expectation: bare LF -> CRLF, others identical
	var exp []byte
	for i := 0; i < n; i++ {
		if body[i] == '\n' && (i == 0 || body[i-1] != '\r') {
			exp = append(exp, '\r', '\n')
		} else {
			exp = append(exp, body[i])
		}
	}
	svAssert(len(dec) == len(exp), "decoded length")
	var diff byte
	for i := range exp {
		diff |= dec[i] ^ exp[i]
	}
	svAssert(diff == 0, "decoded content")
}
