package mail

import (
	"context"
	"io"
	"net"
	"time"
)

func svInt(name string) int         { return 0 }
func svByte(name string) byte       { return 0 }
func svBool(name string) bool       { return false }
func svAssume(b bool)               {}
func svAssert(b bool, msg string)   {}

type fakeAddr struct{}

func (fakeAddr) Network() string { return "tcp" }
func (fakeAddr) String() string  { return "127.0.0.1:25" }

type fakeConn struct {
	in      []byte
	out     []byte
	replies []string
	next    int
	closed  bool
	inData  bool
}

func (c *fakeConn) Read(p []byte) (int, error) {
	if len(c.in) == 0 {
		return 0, io.EOF
	}
	n := copy(p, c.in)
	c.in = c.in[n:]
	return n, nil
}

func (c *fakeConn) Write(p []byte) (int, error) {
	c.out = append(c.out, p...)
	for _, b := range p {
		if b == '\n' && c.next < len(c.replies) {
			if c.inData {
				l := len(c.out)
				if l >= 5 && string(c.out[l-5:]) == "\r\n.\r\n" {
					c.inData = false
				} else {
					continue
				}
			}
			r := c.replies[c.next]
			c.next++
			if len(r) > 3 && r[:3] == "354" {
				c.inData = true
			}
			c.in = append(c.in, r...)
		}
	}
	return len(p), nil
}
func (c *fakeConn) Close() error                       { c.closed = true; return nil }
func (c *fakeConn) LocalAddr() net.Addr                { return fakeAddr{} }
func (c *fakeConn) RemoteAddr() net.Addr               { return fakeAddr{} }
func (c *fakeConn) SetDeadline(t time.Time) error      { return nil }
func (c *fakeConn) SetReadDeadline(t time.Time) error  { return nil }
func (c *fakeConn) SetWriteDeadline(t time.Time) error { return nil }

func HarnessClient1() {
	fc := &fakeConn{in: []byte("220 hi\r\n"), replies: []string{
		"250-srv\r\n250-8BITMIME\r\n250 ENHANCEDSTATUSCODES\r\n", // EHLO
		"250 ok\r\n", // NOOP
		"250 ok\r\n", // MAIL
		"250 ok\r\n", // RCPT
		"354 go\r\n", // DATA
		"250 queued\r\n", // .
		"250 ok\r\n", // NOOP (reset checkConn)
		"250 ok\r\n", // RSET
		"221 bye\r\n", // QUIT
	}}
	c, err := NewClient("mail.example.com", WithTLSPolicy(NoTLS), WithHELO("me"),
		WithDialContextFunc(func(ctx context.Context, network, address string) (net.Conn, error) { return fc, nil }))
	svAssert(err == nil, "newclient")
	m := NewMsg()
	_ = m.From("a@b.c")
	_ = m.To("d@e.f")
	m.SetBodyString(TypeTextPlain, "hello\r\n.dot\r\n")
	err = c.DialAndSend(m)
	if err != nil {
		println(err.Error())
	}
	svAssert(err == nil, "dialandsend")
	svAssert(m.IsDelivered(), "delivered")
	svAssert(fc.closed, "closed")
	println(string(fc.out))
}
func svNoop() {}
