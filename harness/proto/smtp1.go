package smtp

import (
	"io"
	"net"
	"time"
)

func svInt(name string) int         { return 0 }
func svByte(name string) byte       { return 0 }
func svBool(name string) bool       { return false }
func svAssume(b bool)               {}
func svAssert(b bool, msg string)   {}

type fakeAddr struct{}

func (fakeAddr) Network() string { return "tcp" }
func (fakeAddr) String() string  { return "127.0.0.1:25" }

// fakeConn is a scripted server: replies[i] is sent after the i-th client line.
type fakeConn struct {
	in      []byte // pending server->client bytes
	out     []byte // client->server bytes
	replies []string
	next    int
	closed  bool
}

func (c *fakeConn) Read(p []byte) (int, error) {
	if len(c.in) == 0 {
		return 0, io.EOF
	}
	n := copy(p, c.in)
	c.in = c.in[n:]
	return n, nil
}

func (c *fakeConn) Write(p []byte) (int, error) {
	c.out = append(c.out, p...)
	for _, b := range p {
		if b == '\n' && c.next < len(c.replies) {
			c.in = append(c.in, c.replies[c.next]...)
			c.next++
		}
	}
	return len(p), nil
}
func (c *fakeConn) Close() error                       { c.closed = true; return nil }
func (c *fakeConn) LocalAddr() net.Addr                { return fakeAddr{} }
func (c *fakeConn) RemoteAddr() net.Addr               { return fakeAddr{} }
func (c *fakeConn) SetDeadline(t time.Time) error      { return nil }
func (c *fakeConn) SetReadDeadline(t time.Time) error  { return nil }
func (c *fakeConn) SetWriteDeadline(t time.Time) error { return nil }

func HarnessSMTP1() {
	d := svByte("d")
	svAssume(d >= '2')
	svAssume(d <= '5')
	fc := &fakeConn{in: []byte("220 hi\r\n"), replies: []string{
		"250-srv\r\n250-8BITMIME\r\n250 DSN\r\n",
		string([]byte{d, '5', '0'}) + " ok\r\n",
		"250 rcpt ok\r\n",
	}}
	c, err := NewClient(fc, "srv")
	svAssert(err == nil, "newclient")
	err = c.Hello("me")
	svAssert(err == nil, "hello")
	err = c.Mail("a@b.c")
	if d == '2' {
		svAssert(err == nil, "mail ok")
	} else {
		svAssert(err != nil, "mail must fail")
	}
	svAssert(string(fc.out) == "EHLO me\r\nMAIL FROM:<a@b.c> BODY=8BITMIME\r\n", "wire")
}
