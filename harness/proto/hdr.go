package mail

func svInt(name string) int         { return 0 }
func svByte(name string) byte       { return 0 }
func svBool(name string) bool       { return false }
func svAssume(b bool)               {}
func svAssert(b bool, msg string)   {}

type recW struct{ buf []byte }

func (w *recW) Write(p []byte) (int, error) { w.buf = append(w.buf, p...); return len(p), nil }

func HarnessHdrConcrete() {
	w := &recW{}
	mw := &msgWriter{writer: w}
	n := mw.writeHeader(HeaderSubject, "hello world this is a fairly long subject line that needs to be folded somewhere around here ok")
	svAssert(n == 2, "lines")
	svAssert(len(w.buf) > 0, "nonempty")
}
