package mail

func svInt(name string) int         { return 0 }
func svByte(name string) byte       { return 0 }
func svBool(name string) bool       { return false }
func svAssume(b bool)               {}
func svAssert(b bool, msg string)   {}

type recW struct{ buf []byte }

func (w *recW) Write(p []byte) (int, error) { w.buf = append(w.buf, p...); return len(p), nil }

// One inductive step of base64LineBreaker.Write from an arbitrary valid state.
func HarnessB64Step() {
	used := svInt("used")
	n := svInt("n")
	svAssume(used >= 0)
	svAssume(used < MaxBodyLength)
	svAssume(n >= 0)
	svAssume(n <= 40)
	w := &recW{}
	l := &base64LineBreaker{out: w}
	for i := 0; i < MaxBodyLength; i++ {
		l.line[i] = svByte("line")
	}
	var pre [MaxBodyLength]byte = l.line
	l.used = used
	data := make([]byte, n)
	for i := range data {
		data[i] = svByte("data")
	}
	k, err := l.Write(data)
	svAssert(err == nil, "err")
	svAssert(k == n, "count")
	svAssert(l.used >= 0 && l.used < MaxBodyLength, "used range")
	// reference: stream = pre[:used] ++ data ; full lines of 76 + CRLF to out, rest in l.line[:l.used]
	total := used + n
	full := total / MaxBodyLength
	svAssert(l.used == total-full*MaxBodyLength, "used value")
	svAssert(len(w.buf) == full*(MaxBodyLength+2), "out len")
	at := func(j int) byte {
		if j < used {
			return pre[j]
		}
		return data[j-used]
	}
	var diff byte
	pos := 0
	for ln := 0; ln < full; ln++ {
		for c := 0; c < MaxBodyLength; c++ {
			diff |= w.buf[pos] ^ at(ln*MaxBodyLength+c)
			pos++
		}
		diff |= w.buf[pos] ^ '\r'
		diff |= w.buf[pos+1] ^ '\n'
		pos += 2
	}
	for c := 0; c < l.used; c++ {
		diff |= l.line[c] ^ at(full*MaxBodyLength+c)
	}
	svAssert(diff == 0, "content")
}
