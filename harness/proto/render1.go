package mail

import "strings"

func svInt(name string) int         { return 0 }
func svByte(name string) byte       { return 0 }
func svBool(name string) bool       { return false }
func svAssume(b bool)               {}
func svAssert(b bool, msg string)   {}

type recW struct{ buf []byte }

func (w *recW) Write(p []byte) (int, error) { w.buf = append(w.buf, p...); return len(p), nil }

func HarnessRender1() {
	m := NewMsg()
	err := m.From("a@b.c")
	svAssert(err == nil, "from")
	err = m.To("d@e.f")
	svAssert(err == nil, "to")
	m.Subject("hello wörld")
	m.SetBodyString(TypeTextPlain, "hello = world\r\n.leading dot\r\n")
	m.AddAlternativeString(TypeTextHTML, "<b>hello</b>")
	err = m.AttachReader("a.txt", strings.NewReader("attachment data"))
	svAssert(err == nil, "attach")
	w := &recW{}
	n, err := m.WriteTo(w)
	svAssert(err == nil, "writeto")
	svAssert(int(n) == len(w.buf), "count")
	println(string(w.buf))
}
