package PKGNAME

// Translator validation: everything below runs on concrete data, once through
// the symbolic interpreter and once natively; the svNote lines must be equal.

import (
	"bytes"
	"context"
	"encoding/base64"
	"errors"
	"fmt"
	"mime"
	"mime/quotedprintable"
	netmail "net/mail"
	"regexp"
	"sort"
	"strconv"
	"strings"
	"unicode/utf8"
)

func hxN(k string, v any) { svNote(fmt.Sprintf("%s=%v", k, v)) }
func hxNQ(k string, v string) { svNote(fmt.Sprintf("%s=%q", k, v)) }

func HarnessSelftest() {
	// integers, shifts, conversions
	var u8 uint8 = 250
	u8 += 10
	hxN("u8wrap", u8)
	var i32 int32 = 1 << 30
	i32 *= 4
	hxN("i32wrap", i32)
	hxN("shr", int64(-17)>>2)
	var u16 uint16 = 0xffff
	hxN("shl", u16<<3)
	hxN("div", -7/2)
	hxN("rem", -7%3)
	var u200 uint8 = 200
	hxN("conv", int8(u200))
	hxN("andnot", 0xff&^0x0f)
	// strings / bytes
	hxNQ("split", strings.Join(strings.Split("a,b,,c", ","), "|"))
	hxNQ("splitn", strings.Join(strings.SplitN("k=v=w", "=", 2), "|"))
	hxNQ("fields", strings.Join(strings.Fields("  a  b\tc \n"), "|"))
	hxNQ("replace", strings.ReplaceAll("a \r\n b \r\n", " \r\n", "\r\n"))
	hxNQ("replacer", strings.NewReplacer("=", "=3D", ",", "=2C").Replace("a=b,c"))
	hxNQ("replacer2", strings.NewReplacer("\r", "", "\n", "").Replace("x\r\ny\n"))
	hxNQ("lower", strings.ToLower("MiXeD Ünï"))
	hxNQ("upper", strings.ToUpper("MiXeD"))
	hxN("equalfold", strings.EqualFold("Content-TYPE", "content-type"))
	hxNQ("trim", strings.Trim("  \"x\" ", " \""))
	hxNQ("trimleft", strings.TrimLeft("  x ", " "))
	hxN("index", strings.Index("hello world", "o w"))
	hxN("lastindex", strings.LastIndex("a@b@c", "@"))
	hxN("count", strings.Count("a\r\nb\r\nc", "\r\n"))
	hxN("containsany", strings.ContainsAny("ab\rc", "\n\r"))
	hxN("hasprefix", strings.HasPrefix("multipart/mixed; x", "multipart/mixed"))
	hxNQ("repeat", strings.Repeat("ab", 3))
	k, v, ok := strings.Cut("AUTH PLAIN LOGIN", " ")
	hxNQ("cut", k+"|"+v+"|"+strconv.FormatBool(ok))
	hxNQ("bytesjoin", string(bytes.Join([][]byte{[]byte("a"), []byte("b")}, []byte(", "))))
	hxN("bytesidx", bytes.Index([]byte("abc\r\n.\r\n"), []byte("\r\n.\r\n")))
	hxN("byteseq", bytes.Equal([]byte("ab"), []byte("ab")))
	hxN("bytescmp", bytes.Compare([]byte("ab"), []byte("ac")))
	var bb bytes.Buffer
	bb.WriteString("hello ")
	bb.Write([]byte("world"))
	bb.WriteByte('!')
	hxNQ("buffer", bb.String())
	var sb strings.Builder
	sb.WriteRune('ü')
	sb.WriteString("x")
	hxNQ("builder", sb.String())
	hxN("emptybytes-nonnil", []byte("") != nil)
	// strconv
	n, err := strconv.Atoi("450")
	hxN("atoi", fmt.Sprint(n, err))
	_, err = strconv.Atoi("4x0")
	hxN("atoierr", err != nil)
	hxNQ("itoa", strconv.Itoa(-1205))
	hxNQ("quote", strconv.Quote("a\"b\\c\r\n\x00é"))
	// utf8
	cnt := 0
	for i, r := range "aé\xffz€" {
		cnt += i*7 + int(r)
	}
	hxN("rangeutf8", cnt)
	hxN("runecount", utf8.RuneCountInString("aé€\xff"))
	hxNQ("runes", string([]rune("hé€")[1:]))
	hxN("validutf8", utf8.ValidString("a\xc3\x28"))
	// fmt
	hxNQ("fmt1", fmt.Sprintf("%s|%d|%03d|%5d|%x|%X|%v|%q|%t|%c|%%", "s", 42, 7, 12, []byte{1, 171}, 255, []string{"a", "b"}, "q\"", true, 'x'))
	type hxFmtT struct {
		A string
		B int
		C bool
	}
	hxNQ("fmtstruct", fmt.Sprintf("%v|%v", &hxFmtT{"x y", 7, true}, hxFmtT{"z", -1, false}))
	fstr := "a%sb%%c" + string([]byte{'%'}) + "d"
	hxNQ("fmtdynamic", fmt.Sprintf(fstr, "S", 5))
	hxNQ("fmtmissing", fmt.Sprintf("x%sy%"))
	e1 := errors.New("450 4.2.0 busy")
	e2 := fmt.Errorf("wrapped: %w", e1)
	hxNQ("errorf", e2.Error())
	hxN("unwrap", errors.Unwrap(e2) == e1)
	hxN("errorsis", errors.Is(e2, e1))
	hxNQ("errnilw", fmt.Errorf("x: %w", nil).Error())
	// encodings
	hxNQ("b64", base64.StdEncoding.EncodeToString([]byte("any carnal pleas\x00\xff")))
	d, derr := base64.StdEncoding.DecodeString("YW55IGNhcm5hbCBwbGVhcw==")
	hxNQ("b64dec", string(d)+fmt.Sprint(derr))
	_, derr = base64.StdEncoding.DecodeString("YW55*")
	hxN("b64err", derr != nil)
	var qb bytes.Buffer
	qw := quotedprintable.NewWriter(&qb)
	qw.Write([]byte("a=b \r\ntrailing space \r\n" + strings.Repeat("x", 80) + "\xe4\n.dot"))
	qw.Close()
	hxNQ("qpenc", qb.String())
	qd := new(bytes.Buffer)
	qd.ReadFrom(quotedprintable.NewReader(strings.NewReader("a=3Db=\r\nc =\r\n\r\n=E4")))
	hxNQ("qpdec", qd.String())
	hxNQ("wordq", mime.QEncoding.Encode("UTF-8", "Grüße, Jörg = ?"))
	hxNQ("wordb", mime.BEncoding.Encode("UTF-8", "Grüße "+strings.Repeat("ä", 30)))
	wd, werr := (&mime.WordDecoder{}).DecodeHeader("=?UTF-8?q?Gr=C3=BC=C3=9Fe?= =?utf-8?b?SsO2cmc=?= x")
	hxNQ("worddec", wd+fmt.Sprint(werr))
	mt, mp, merr := mime.ParseMediaType(`multipart/mixed; boundary="abc def"; charset=utf-8`)
	hxNQ("mediatype", mt+"|"+mp["boundary"]+"|"+mp["charset"]+fmt.Sprint(merr))
	_, _, merr = mime.ParseMediaType(`attachment; filename=`)
	hxN("mediatypeerr", merr != nil)
	// net/mail
	a, aerr := netmail.ParseAddress(`"Doe, John" <john.doe@example.com>`)
	hxNQ("addr", a.Name+"|"+a.Address+"|"+a.String()+fmt.Sprint(aerr))
	a2, _ := netmail.ParseAddress("Jörg Müller <j@example.com>")
	hxNQ("addr2", a2.String())
	_, aerr = netmail.ParseAddress("not an address")
	hxN("addrerr", aerr != nil)
	al, _ := netmail.ParseAddressList("a@b.c, \"X Y\" <x@y.z>")
	hxN("addrlist", len(al))
	a3, aerr := netmail.ParseAddress(`"a b"@example.com`)
	hxNQ("addr3", a3.Address+fmt.Sprint(aerr))
	// regexp, sort
	re := regexp.MustCompile(`\b([245])\.\d{1,3}\.\d{1,3}\b`)
	hxNQ("regexp", re.FindString("550 5.7.1 rejected 4.2.0"))
	ss := []string{"To", "Cc", "Date", "From"}
	sort.Strings(ss)
	hxNQ("sort", strings.Join(ss, ","))
	// maps keep their contents
	m := map[string][]string{}
	m["b"] = append(m["b"], "1")
	m["a"] = []string{"2"}
	delete(m, "b")
	_, okb := m["b"]
	hxN("map", fmt.Sprint(len(m), okb, m["a"][0]))
	// slices: append / copy aliasing
	s1 := make([]byte, 2, 8)
	s2 := append(s1, 'x')
	s1 = append(s1, 'y')
	hxN("alias", s2[2])
	c := make([]byte, 3)
	hxN("copy", copy(c, "abcdef"))
	// go-mail kernels on the repo's own test vectors
	hxNQ("sanitize", sanitizeFilename("a/b:c<d>e?f\\g|h\x7f\x01\"i.txt"))
	w := &bytes.Buffer{}
	mw := &msgWriter{writer: w}
	lines := mw.writeHeader(HeaderMessageID, strings.Repeat("a", MaxHeaderLength-13), "next-row")
	hxNQ("writeheader", w.String()+strconv.Itoa(lines))
	w.Reset()
	lb := &base64LineBreaker{out: w}
	lb.Write(bytes.Repeat([]byte("AbCd"), 41))
	lb.Close()
	hxNQ("linebreaker", w.String())
	h, opt := parseMultiPartHeader(`attachment; filename="te;st.txt"; size=12`)
	hxNQ("parsemph", h+"|"+opt["filename"]+"|"+opt["size"])
	hxN("senderr", fmt.Sprint(isTempError(e1), errorCode(e2), enhancedStatusCode(e2, true), enhancedStatusCode(errors.New("550 bad 5.1.1"), true)))
	// a whole message rendering with fixed date / id
	msg := NewMsg()
	_ = msg.FromFormat("Toni Tester", "toni@example.com")
	_ = msg.To("tina@example.com")
	msg.Subject("Selftest ü subject that is long enough to be folded by the header writer at some point")
	msg.SetDateWithValue(hxFixedTime)
	msg.SetMessageIDWithValue("selftest@example.com")
	msg.SetBoundary("selftest-boundary")
	msg.SetBodyString(TypeTextPlain, "Hello = World\r\n.dot\r\n")
	msg.AddAlternativeString(TypeTextHTML, "<b>Hello</b>")
	_ = msg.AttachReader("fü.txt", strings.NewReader("attachment \x00 data"), WithFileDescription("desc"))
	out := &bytes.Buffer{}
	nn, werr2 := msg.WriteTo(out)
	// the inner level's boundary is random (only the outermost level takes the
	// caller's): normalised before the comparison
	rendered := out.String()
	if i := strings.Index(rendered, "multipart/alternative;\r\n boundary="); i >= 0 {
		rest := rendered[i+len("multipart/alternative;\r\n boundary="):]
		if j := strings.Index(rest, "\r\n"); j > 0 {
			rendered = strings.ReplaceAll(rendered, rest[:j], "INNER-BOUNDARY")
		}
	}
	hxNQ("render", rendered+fmt.Sprint(nn, werr2))
	p, perr := EMLToMsgFromString(out.String())
	if perr == nil {
		hxN("parsed", fmt.Sprint(len(p.GetParts()), len(p.GetAttachments()), p.GetGenHeader(HeaderSubject)))
	} else {
		hxNQ("parsed-err", perr.Error())
	}
	// a whole SMTP dialogue against the reference server
	srv := hxNewSrv([]string{"8BITMIME", "ENHANCEDSTATUSCODES", "DSN"})
	srv.onlyOK = true
	cl := hxNewClient(srv, WithDSN())
	derr2 := cl.DialWithContext(context.Background())
	serr := cl.Send(hxTestMsg(0, 2, 0, EncodingQP))
	cerr := cl.Close()
	tr := ""
	for _, c := range srv.cmds {
		tr += c.line + ";"
	}
	hxNQ("dialogue", tr+fmt.Sprint(derr2, serr, cerr, len(srv.commits), srv.closed))
}
