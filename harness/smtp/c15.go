package PKGNAME

// C15: SCRAM authenticates the server.

func HarnessC15Scram() {
	hxInstallRand().concrete = true
	pass := svBytes("password", 2)
	for _, b := range pass {
		svAssume(b >= 0x21)
		svAssume(b <= 0x7e)
	}
	z := &hxScramSrv{password: pass, maxMsgs: svParam("msgs", 4)}
	s := hxNewSrv([]string{"AUTH SCRAM-SHA-256"})
	s.onlyOK = true
	s.authFn = z.handle
	c := hxNewSMTPClient(s)
	err := c.Auth(ScramSHA256Auth("user", string(pass)))
	if err != nil {
		svReach("auth-failed")
		return
	}
	svReach("auth-succeeded")
	seq := ""
	for _, t := range z.trace {
		seq += t + " "
	}
	svNote("success after: " + seq)
	if !z.ackedValid {
		// a v= message counts for the running exchange only: an empty challenge
		// restarts the exchange
		anyFinal := false
		for _, t := range z.trace {
			if t == "empty-challenge" {
				anyFinal = false
			}
			if t == "valid-server-final" || t == "forged-server-final" || t == "empty-state-server-final" || t == "stale-server-final" {
				anyFinal = true
			}
		}
		if anyFinal {
			svAssert(false, "C15 success although the valid server-final of the running exchange was never presented")
		} else {
			svAssert(false, "C15 success-without-server-final (bare 235 accepted)")
		}
	}
}
