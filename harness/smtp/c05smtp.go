package PKGNAME

// C05 at the smtp package API: values handed to Hello, Mail, Rcpt and Verify
// cannot introduce CR/LF or put any command line on the wire that the caller
// did not issue - also not later, after the call that was given the value has
// refused it.
func HarnessC05SmtpAPI() {
	n := svParam("n", 2)
	which := svPick("call", 4) // 0 Hello, 1 Mail, 2 Rcpt, 3 Verify
	v := svBytes("v", n)
	s := hxNewSrv([]string{"8BITMIME"})
	s.onlyOK = true
	c := hxNewSMTPClient(s)
	// a benign prefix so that the symbolic bytes sit inside the value
	val := "x" + string(v) + "y"
	var err error
	issued := map[string]int{}
	switch which {
	case 0:
		err = c.Hello(val)
	case 1:
		err = c.Mail(val + "@a.example")
		issued["MAIL"]++
	case 2:
		if merr := c.Mail("s@a.example"); merr != nil {
			svAssert(false, "setup-mail")
			return
		}
		issued["MAIL"]++
		err = c.Rcpt(val + "@b.example")
		issued["RCPT"]++
	default:
		err = c.Verify(val + "@b.example")
		issued["VRFY"]++
	}
	if err != nil {
		svReach("refused")
	} else {
		svReach("accepted")
	}
	// the caller carries on with the client (at least to say good-bye)
	_ = c.Noop()
	issued["NOOP"]++
	_ = c.Quit()
	issued["QUIT"]++
	seen := map[string]int{}
	for _, cm := range s.cmds {
		seen[cm.verb]++
		// (blanks and other control characters in these values are the business of
		// the mail.Client level - runs helo and envelope; this low-level API only
		// promises that a value cannot break out of its line)
		for i := 0; i < len(cm.line); i++ {
			svAssert(cm.line[i] != '\r' && cm.line[i] != '\n', "C05 CR or LF inside the "+cm.verb+" line")
		}
		switch cm.verb {
		case "EHLO", "HELO", "MAIL", "RCPT", "VRFY", "NOOP", "QUIT":
		default:
			svAssert(false, "C05 command line that the caller did not issue: verb "+cm.verb)
		}
	}
	for _, verb := range []string{"MAIL", "RCPT", "VRFY", "NOOP", "QUIT"} {
		svAssert(seen[verb] <= issued[verb], "C05 more "+verb+" commands on the wire than the caller issued")
	}
	svAssert(seen["EHLO"]+seen["HELO"] <= 1, "C05 more than one greeting command on the wire")
	svAssert(len(s.in) == 0, "C05 partial command line left on the wire")
}
