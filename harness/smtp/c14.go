package PKGNAME

import (
	"crypto/hmac"
	"crypto/md5"
	"crypto/sha1"
	"crypto/sha256"
	"crypto/tls"
	"hash"

	"github.com/wneessen/go-mail/internal/pbkdf2"
)

// C14: SASL message construction against RFC reference messages.

func hxNewSMTPClient(s *hxSrv) *Client {
	c, err := NewClient(&hxConn{s: s}, "mail.example")
	if err != nil {
		svAssert(false, "setup-newclient")
		svStop()
	}
	return c
}

// hxAuthCapture is a server-side AUTH handler that records every line of the
// exchange and answers from a script of (code, text) pairs.
type hxAuthScript struct {
	lines     [][]byte
	replies   []string // full reply lines without CRLF, consumed in order
	dropAfter int      // >0: drop the connection instead of sending reply number dropAfter
	irOptional bool    // a conforming server: "AUTH <mech>" without initial response is answered by an empty 334 challenge (RFC 4954 section 4)
	scramFix  bool     // rewrite an "r=PLACEHOLDER" server-first so that it extends the client nonce
	sent      int
}

func (a *hxAuthScript) handle(s *hxSrv, line string) {
	a.lines = append(a.lines, []byte(line))
	c := s.cmds[len(s.cmds)-1]
	c.verb = "AUTH"
	a.sent++
	if a.dropAfter > 0 && a.sent >= a.dropAfter {
		s.inAuth = false
		s.dropped = true
		return
	}
	if a.irOptional && a.sent == 1 && (line == "AUTH PLAIN" || line == "AUTH XOAUTH2") {
		s.inAuth = true
		s.out = append(s.out, "334 \r\n"...)
		return
	}
	if len(a.replies) == 0 {
		s.inAuth = false
		s.out = append(s.out, "535 5.7.8 no more script\r\n"...)
		return
	}
	r := a.replies[0]
	a.replies = a.replies[1:]
	if a.scramFix && len(a.lines) >= 2 && r == "334 "+string(hxB64Enc([]byte("r=PLACEHOLDER"))) {
		// client-first is the previous line: n,,n=user,r=<nonce>
		if dec, ok := hxB64DecStd(a.lines[len(a.lines)-1]); ok {
			k := len(dec) - 1
			for k > 0 && !(dec[k-1] == 'r' && dec[k] == '=') {
				k--
			}
			sf := append(append([]byte("r="), dec[k+1:]...), "Sx,s=WqU=,i=4096"...)
			r = "334 " + string(hxB64Enc(sf))
		}
	}
	s.inAuth = len(r) >= 3 && r[:3] == "334"
	s.out = append(s.out, r...)
	s.out = append(s.out, '\r', '\n')
}

func HarnessC14Plain() {
	n := svParam("n", 2)
	user := svBytes("user", n)
	pass := svBytes("pass", n)
	// NUL-free credentials (RFC 4616)
	for _, c := range append(append([]byte{}, user...), pass...) {
		svAssume(c != 0)
	}
	// long credentials: with them "AUTH <mech> <initial-response>" exceeds the
	// 512-octet command line limit; a client may then hold the response back
	// until the server's empty challenge (RFC 4954 section 4)
	if svParam("long", 0) == 1 && svPick("credential-length", 2) == 1 {
		pad := make([]byte, 400)
		for i := range pad {
			pad[i] = 'a' + byte(i%26)
		}
		pass = append(pad, pass...)
		svReach("long-credentials")
	}
	mech := svPick("mech", 3) // 0 PLAIN, 1 LOGIN, 2 XOAUTH2
	// the same Auth object may have been used before: 0 fresh, 1 an earlier
	// exchange that the server rejected at its last step, 2 an earlier accepted
	// exchange (re-authentication on a new connection)
	reuse := svPick("auth-object-history", 3)
	var a Auth
	var script []string
	switch mech {
	case 0:
		script = []string{"235 2.7.0 ok"}
		a = PlainAuth("", string(user), string(pass), "mail.example", true)
	case 1:
		script = []string{"334 VXNlcm5hbWU6", "334 UGFzc3dvcmQ6", "235 2.7.0 ok"}
		a = LoginAuth(string(user), string(pass), "mail.example", true)
	default:
		script = []string{"235 2.7.0 ok"}
		a = XOAuth2Auth(string(user), string(pass))
	}
	if reuse > 0 {
		s0 := hxNewSrv([]string{"AUTH PLAIN LOGIN XOAUTH2"})
		s0.onlyOK = true
		sc0 := &hxAuthScript{replies: append([]string{}, script...), irOptional: true}
		if reuse == 1 {
			sc0.replies[len(sc0.replies)-1] = "535 5.7.8 authentication credentials invalid"
		}
		s0.authFn = sc0.handle
		err0 := hxNewSMTPClient(s0).Auth(a)
		svAssert((err0 == nil) == (reuse == 2), "C14 earlier exchange: outcome differs from the server's verdict")
	}
	s := hxNewSrv([]string{"AUTH PLAIN LOGIN XOAUTH2"})
	s.onlyOK = true
	sc := &hxAuthScript{replies: script, irOptional: true}
	s.authFn = sc.handle
	c := hxNewSMTPClient(s)
	err := c.Auth(a)
	svAssert(err == nil, "C14 honest exchange failed")
	if err != nil {
		return
	}
	svReach("authenticated")
	// the initial response may have been held back for the empty challenge: the
	// SASL message is then the second line
	if mech != 1 && len(sc.lines) == 2 && (string(sc.lines[0]) == "AUTH PLAIN" || string(sc.lines[0]) == "AUTH XOAUTH2") {
		svReach("initial-response-held-back")
		sc.lines = [][]byte{append(append(append([]byte{}, sc.lines[0]...), ' '), sc.lines[1]...)}
	}
	switch mech {
	case 0:
		svAssert(len(sc.lines) == 1, "C14 PLAIN: number of lines")
		ref := append(append(append([]byte{0}, user...), 0), pass...)
		want := append([]byte("AUTH PLAIN "), hxB64Enc(ref)...)
		svAssert(hxEqBytes(sc.lines[0], want), "C14 PLAIN message is not base64(NUL authcid NUL passwd)")
	case 1:
		svAssert(len(sc.lines) == 3, "C14 LOGIN: number of lines")
		if len(sc.lines) != 3 {
			return
		}
		svAssert(string(sc.lines[0]) == "AUTH LOGIN", "C14 LOGIN: initial line")
		svAssert(hxEqBytes(sc.lines[1], hxB64Enc(user)), "C14 LOGIN: user name line is not base64(user)")
		svAssert(hxEqBytes(sc.lines[2], hxB64Enc(pass)), "C14 LOGIN: password line is not base64(password)")
	default:
		svAssert(len(sc.lines) == 1, "C14 XOAUTH2: number of lines")
		ref := append([]byte("user="), user...)
		ref = append(ref, 1)
		ref = append(ref, "auth=Bearer "...)
		ref = append(ref, pass...)
		ref = append(ref, 1, 1)
		want := append([]byte("AUTH XOAUTH2 "), hxB64Enc(ref)...)
		svAssert(hxEqBytes(sc.lines[0], want), "C14 XOAUTH2 message differs from the reference")
	}
}

const hxHexDigits = "0123456789abcdef"

func hxHex(b []byte) []byte {
	var out []byte
	for _, c := range b {
		out = append(out, hxHexDigits[c>>4], hxHexDigits[c&15])
	}
	return out
}

// CRAM-MD5 (RFC 2195): response = user SP hex(HMAC-MD5(secret, challenge))
func HarnessC14Cram() {
	n := svParam("n", 2)
	user := svBytes("user", n)
	secret := svBytes("secret", n)
	chal := svBytes("challenge", svParam("chal", 3))
	for _, c := range user {
		svAssume(c != 0)
	}
	s := hxNewSrv([]string{"AUTH CRAM-MD5"})
	s.onlyOK = true
	sc := &hxAuthScript{replies: []string{"334 " + string(hxB64Enc(chal)), "235 2.7.0 ok"}}
	s.authFn = sc.handle
	c := hxNewSMTPClient(s)
	err := c.Auth(CRAMMD5Auth(string(user), string(secret)))
	svAssert(err == nil, "C14 CRAM-MD5 honest exchange failed")
	if err != nil || len(sc.lines) != 2 {
		svAssert(err != nil, "C14 CRAM-MD5: number of lines")
		return
	}
	svReach("cram-authenticated")
	svAssert(string(sc.lines[0]) == "AUTH CRAM-MD5", "C14 CRAM-MD5: initial line")
	mac := hmac.New(md5.New, secret)
	mac.Write(chal)
	ref := append(append(append([]byte{}, user...), ' '), hxHex(mac.Sum(nil))...)
	svAssert(hxEqBytes(sc.lines[1], hxB64Enc(ref)), "C14 CRAM-MD5 response is not base64(user SP hex(HMAC-MD5(secret, challenge)))")
}

// hxRefPBKDF2 is RFC 8018 PBKDF2 with HMAC over the given hash.
func hxRefPBKDF2(password, salt []byte, iter, keyLen int, h func() hash.Hash) []byte {
	hl := h().Size()
	blocks := (keyLen + hl - 1) / hl
	var dk []byte
	for b := 1; b <= blocks; b++ {
		mac := hmac.New(h, password)
		mac.Write(salt)
		mac.Write([]byte{byte(b >> 24), byte(b >> 16), byte(b >> 8), byte(b)})
		u := mac.Sum(nil)
		t := append([]byte{}, u...)
		for i := 2; i <= iter; i++ {
			m2 := hmac.New(h, password)
			m2.Write(u)
			u = m2.Sum(nil)
			for k := range t {
				t[k] ^= u[k]
			}
		}
		dk = append(dk, t...)
	}
	return dk[:keyLen]
}

// internal/pbkdf2.Key against the RFC 8018 composition (HMAC as UF).
func HarnessC14PBKDF2() {
	pw := svBytes("password", svParam("n", 2))
	salt := svBytes("salt", svParam("n", 2))
	iter := 1 + svPick("iterations", svParam("iters", 3))
	keyLen := 1 + svPick("keylen", svParam("keylens", 8))
	got := pbkdf2.Key(pw, salt, iter, keyLen, sha256.New)
	want := hxRefPBKDF2(pw, salt, iter, keyLen, sha256.New)
	svReach("pbkdf2-compared")
	svAssert(len(got) == keyLen, "C14 pbkdf2.Key returns the wrong length")
	svAssert(hxEqBytes(got, want), "C14 pbkdf2.Key differs from RFC 8018 PBKDF2-HMAC")
}

var hxUserClass [256]byte

func init() {
	for _, c := range []byte{',', '=', 'a', 'Z', '2'} {
		hxUserClass[c] = 1
	}
}

// hxSaslName applies the RFC 5802 escaping of ',' and '='.
func hxSaslName(u []byte) []byte {
	var out []byte
	for _, c := range u {
		switch c {
		case ',':
			out = append(out, "=2C"...)
		case '=':
			out = append(out, "=3D"...)
		default:
			out = append(out, c)
		}
	}
	return out
}

// SCRAM message construction (RFC 5802 / 7677), honest server, two exchanges
// on the same Auth object.
func HarnessC14Scram() {
	rr := hxInstallRand()
	rr.symPrefix = svParam("noncesym", 0)
	if rr.symPrefix == 0 {
		rr.concrete = true
	}
	user := svBytes("user", svParam("n", 2))
	pass := svBytes("password", svParam("pn", 1))
	for _, c := range pass {
		svAssume(c >= 0x20)
		svAssume(c <= 0x7e)
	}
	// user name bytes from the classes that matter for saslname escaping
	for _, c := range user {
		svAssume(hxUserClass[c] == 1)
	}
	plus := svPick("plus", 3) // 0 plain SCRAM, 1 PLUS with tls-unique (TLS 1.2), 2 PLUS with tls-exporter (TLS 1.3)
	sha1v := svPick("sha1", 2) == 1
	hnew := sha256.New
	if sha1v {
		hnew = sha1.New
	}
	var a Auth
	var cs *tls.ConnectionState
	gs2 := []byte("n,,")
	cbind := []byte("n,,")
	switch plus {
	case 0:
		a = ScramSHA256Auth(string(user), string(pass))
		if sha1v {
			a = ScramSHA1Auth(string(user), string(pass))
		}
	case 1:
		cs = &tls.ConnectionState{Version: tls.VersionTLS12, TLSUnique: []byte{1, 2, 3, 4, 5, 6, 7, 8, 9, 10, 11, 12}}
		a = ScramSHA256PlusAuth(string(user), string(pass), cs)
		if sha1v {
			a = ScramSHA1PlusAuth(string(user), string(pass), cs)
		}
		gs2 = []byte("p=tls-unique,,")
		cbind = append([]byte("p=tls-unique,,"), cs.TLSUnique...)
	default:
		cs = &tls.ConnectionState{Version: tls.VersionTLS13}
		a = ScramSHA256PlusAuth(string(user), string(pass), cs)
		if sha1v {
			a = ScramSHA1PlusAuth(string(user), string(pass), cs)
		}
		gs2 = []byte("p=tls-exporter,,")
		cbind = append([]byte("p=tls-exporter,,"), hxEKM(cs, "EXPORTER-Channel-Binding", nil, 32)...)
	}
	var nonces [][]byte
	for round := 0; round < svParam("rounds", 2); round++ {
		s := hxNewSrv([]string{"AUTH SCRAM-SHA-256 SCRAM-SHA-256-PLUS SCRAM-SHA-1 SCRAM-SHA-1-PLUS"})
		s.onlyOK = true
		salt := svBytes("salt", 1)
		iters := 1 + svPick("iterations", 2)
		suffix := []byte("Zq")
		z := &hxScramHonest{salt: salt, iters: iters, suffix: suffix, password: pass, hnew: hnew}
		s.authFn = z.handle
		c := hxNewSMTPClient(s)
		err := c.Auth(a)
		svAssert(err == nil, "C14 SCRAM honest exchange failed")
		if err != nil {
			return
		}
		svReach("scram-authenticated")
		// client-first
		wantFirstBare := append(append(append([]byte("n="), hxSaslName(user)...), ",r="...), hxB64Enc(rr.reads[len(rr.reads)-1])...)
		svAssert(hxEqBytes(z.clientFirst, append(append([]byte{}, gs2...), wantFirstBare...)), "C14 SCRAM client-first is not gs2-header n=saslname(user),r=base64(fresh random bytes)")
		nonces = append(nonces, rr.reads[len(rr.reads)-1])
		// client-final
		nonce := append(hxB64Enc(rr.reads[len(rr.reads)-1]), suffix...)
		without := append(append(append([]byte("c="), hxB64Enc(cbind)...), ",r="...), nonce...)
		authMsg := append(append(append(append(append([]byte{}, wantFirstBare...), ','), z.serverFirst...), ','), without...)
		salted := pbkdf2.Key(pass, salt, iters, hnew().Size(), hnew)
		ck := hmac.New(hnew, salted)
		ck.Write([]byte("Client Key"))
		clientKey := ck.Sum(nil)
		hh := hnew()
		hh.Write(clientKey)
		stored := hh.Sum(nil)
		sg := hmac.New(hnew, stored)
		sg.Write(authMsg)
		sig := sg.Sum(nil)
		proof := make([]byte, len(sig))
		for i := range sig {
			proof[i] = clientKey[i] ^ sig[i]
		}
		wantFinal := append(append(append([]byte{}, without...), ",p="...), hxB64Enc(proof)...)
		svAssert(hxEqBytes(z.clientFinal, wantFinal), "C14 SCRAM client-final differs from the RFC 5802 reference (channel binding, nonce or proof)")
	}
	if len(nonces) == 2 {
		svAssert(len(rr.reads) >= 2, "C14 SCRAM retry did not read the random source again")
		svReach("retry-checked")
	}
}

type hxScramHonest struct {
	salt, suffix, password []byte
	iters                  int
	clientFirst            []byte
	clientFinal            []byte
	serverFirst            []byte
	step                   int
	hnew                   func() hash.Hash
}

func (z *hxScramHonest) handle(s *hxSrv, line string) {
	c := s.cmds[len(s.cmds)-1]
	c.verb = "AUTH"
	l := []byte(line)
	reply := func(code string, payload []byte) {
		s.inAuth = code == "334"
		s.out = append(s.out, code...)
		s.out = append(s.out, ' ')
		s.out = append(s.out, hxB64Enc(payload)...)
		s.out = append(s.out, '\r', '\n')
	}
	switch z.step {
	case 0: // AUTH SCRAM-...
		z.step = 1
		reply("334", nil)
	case 1: // client-first
		dec, ok := hxB64DecStd(l)
		if !ok {
			s.inAuth = false
			s.out = append(s.out, "535 5.7.8 bad base64\r\n"...)
			return
		}
		z.clientFirst = dec
		k := len(dec) - 1
		for k > 0 && !(dec[k-1] == 'r' && dec[k] == '=' && k >= 2 && dec[k-2] == ',') {
			k--
		}
		nonce := append(append([]byte{}, dec[k+1:]...), z.suffix...)
		z.serverFirst = append(append(append(append(append([]byte("r="), nonce...), ",s="...), hxB64Enc(z.salt)...), ",i="...), byte('0'+z.iters))
		z.step = 2
		reply("334", z.serverFirst)
	case 2: // client-final
		dec, _ := hxB64DecStd(l)
		z.clientFinal = dec
		// the honest server answers with the right signature: compute it like the client must
		first := z.clientFirst
		k := 0
		n := 0
		for k < len(first) && n < 2 {
			if first[k] == ',' {
				n++
			}
			k++
		}
		firstBare := first[k:]
		p := len(dec) - 1
		for p >= 2 && !(dec[p-2] == ',' && dec[p-1] == 'p' && dec[p] == '=') {
			p--
		}
		authMsg := append(append(append(append(append([]byte{}, firstBare...), ','), z.serverFirst...), ','), dec[:p-2]...)
		salted := pbkdf2.Key(z.password, z.salt, z.iters, z.hnew().Size(), z.hnew)
		sk := hmac.New(z.hnew, salted)
		sk.Write([]byte("Server Key"))
		m2 := hmac.New(z.hnew, sk.Sum(nil))
		m2.Write(authMsg)
		z.step = 3
		reply("334", append([]byte("v="), hxB64Enc(m2.Sum(nil))...))
	default:
		s.inAuth = false
		s.out = append(s.out, "235 2.7.0 ok\r\n"...)
	}
}

// hxEKM is the model of (*tls.ConnectionState).ExportKeyingMaterial.
func hxEKM(cs *tls.ConnectionState, label string, context []byte, length int) []byte {
	b, _ := hxEKMModel(cs, label, context, length)
	return b
}

func hxEKMModel(cs *tls.ConnectionState, label string, context []byte, length int) ([]byte, error) {
	// RFC 9266: tls-exporter channel binding is 32 bytes of keying material
	// exported with this label and an empty context, whatever the SCRAM hash
	svAssert(label == "EXPORTER-Channel-Binding", "C14 SCRAM tls-exporter: wrong exporter label")
	svAssert(len(context) == 0, "C14 SCRAM tls-exporter: non-empty exporter context")
	svAssert(length == 32, "C14 SCRAM tls-exporter: exported length is not 32 bytes")
	return svUF("ekm", length, []byte(label), context), nil
}

// Every SCRAM attempt, including a retry on the same Auth object, uses a
// nonce that is the base64 of bytes freshly read from the random source.
func HarnessC14Nonce() {
	rr := hxInstallRand() // fully symbolic random bytes
	a := ScramSHA256Auth("user", "pencil")
	var firsts [][]byte
	for round := 0; round < 2; round++ {
		if _, _, err := a.Start(&ServerInfo{Name: "mail.example", TLS: true}); err != nil {
			svAssert(false, "C14 SCRAM Start failed")
			return
		}
		m, err := a.Next([]byte{}, true)
		if err != nil {
			svAssert(false, "C14 SCRAM client-first failed")
			return
		}
		firsts = append(firsts, m)
		svAssert(len(rr.reads) == round+1, "C14 SCRAM attempt did not read the random source exactly once")
		if len(rr.reads) != round+1 {
			return
		}
		want := append([]byte("n,,n=user,r="), hxB64Enc(rr.reads[round])...)
		svAssert(hxEqBytes(m, want), "C14 SCRAM client nonce is not the base64 of the freshly read random bytes")
	}
	svReach("two-attempts")
}
