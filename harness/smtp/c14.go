package PKGNAME

// C14: SASL message construction against RFC reference messages.

func hxNewSMTPClient(s *hxSrv) *Client {
	c, err := NewClient(&hxConn{s: s}, "mail.example")
	if err != nil {
		svAssert(false, "setup-newclient")
		svStop()
	}
	return c
}

// hxAuthCapture is a server-side AUTH handler that records every line of the
// exchange and answers from a script of (code, text) pairs.
type hxAuthScript struct {
	lines     [][]byte
	replies   []string // full reply lines without CRLF, consumed in order
	dropAfter int      // >0: drop the connection instead of sending reply number dropAfter
	scramFix  bool     // rewrite an "r=PLACEHOLDER" server-first so that it extends the client nonce
	sent      int
}

func (a *hxAuthScript) handle(s *hxSrv, line string) {
	a.lines = append(a.lines, []byte(line))
	c := s.cmds[len(s.cmds)-1]
	c.verb = "AUTH"
	a.sent++
	if a.dropAfter > 0 && a.sent >= a.dropAfter {
		s.inAuth = false
		s.dropped = true
		return
	}
	if len(a.replies) == 0 {
		s.inAuth = false
		s.out = append(s.out, "535 5.7.8 no more script\r\n"...)
		return
	}
	r := a.replies[0]
	a.replies = a.replies[1:]
	if a.scramFix && len(a.lines) >= 2 && r == "334 "+string(hxB64Enc([]byte("r=PLACEHOLDER"))) {
		// client-first is the previous line: n,,n=user,r=<nonce>
		if dec, ok := hxB64DecStd(a.lines[len(a.lines)-1]); ok {
			k := len(dec) - 1
			for k > 0 && !(dec[k-1] == 'r' && dec[k] == '=') {
				k--
			}
			sf := append(append([]byte("r="), dec[k+1:]...), "Sx,s=WqU=,i=4096"...)
			r = "334 " + string(hxB64Enc(sf))
		}
	}
	s.inAuth = len(r) >= 3 && r[:3] == "334"
	s.out = append(s.out, r...)
	s.out = append(s.out, '\r', '\n')
}

func HarnessC14Plain() {
	n := svParam("n", 2)
	user := svBytes("user", n)
	pass := svBytes("pass", n)
	// NUL-free credentials (RFC 4616)
	for _, c := range append(append([]byte{}, user...), pass...) {
		svAssume(c != 0)
	}
	mech := svPick("mech", 3) // 0 PLAIN, 1 LOGIN, 2 XOAUTH2
	s := hxNewSrv([]string{"AUTH PLAIN LOGIN XOAUTH2"})
	s.onlyOK = true
	sc := &hxAuthScript{}
	s.authFn = sc.handle
	c := hxNewSMTPClient(s)
	var a Auth
	switch mech {
	case 0:
		sc.replies = []string{"235 2.7.0 ok"}
		a = PlainAuth("", string(user), string(pass), "mail.example", true)
	case 1:
		sc.replies = []string{"334 VXNlcm5hbWU6", "334 UGFzc3dvcmQ6", "235 2.7.0 ok"}
		a = LoginAuth(string(user), string(pass), "mail.example", true)
	default:
		sc.replies = []string{"235 2.7.0 ok"}
		a = XOAuth2Auth(string(user), string(pass))
	}
	err := c.Auth(a)
	svAssert(err == nil, "C14 honest exchange failed")
	if err != nil {
		return
	}
	svReach("authenticated")
	switch mech {
	case 0:
		svAssert(len(sc.lines) == 1, "C14 PLAIN: number of lines")
		ref := append(append(append([]byte{0}, user...), 0), pass...)
		want := append([]byte("AUTH PLAIN "), hxB64Enc(ref)...)
		svAssert(hxEqBytes(sc.lines[0], want), "C14 PLAIN message is not base64(NUL authcid NUL passwd)")
	case 1:
		svAssert(len(sc.lines) == 3, "C14 LOGIN: number of lines")
		if len(sc.lines) != 3 {
			return
		}
		svAssert(string(sc.lines[0]) == "AUTH LOGIN", "C14 LOGIN: initial line")
		svAssert(hxEqBytes(sc.lines[1], hxB64Enc(user)), "C14 LOGIN: user name line is not base64(user)")
		svAssert(hxEqBytes(sc.lines[2], hxB64Enc(pass)), "C14 LOGIN: password line is not base64(password)")
	default:
		svAssert(len(sc.lines) == 1, "C14 XOAUTH2: number of lines")
		ref := append([]byte("user="), user...)
		ref = append(ref, 1)
		ref = append(ref, "auth=Bearer "...)
		ref = append(ref, pass...)
		ref = append(ref, 1, 1)
		want := append([]byte("AUTH XOAUTH2 "), hxB64Enc(ref)...)
		svAssert(hxEqBytes(sc.lines[0], want), "C14 XOAUTH2 message differs from the reference")
	}
}
