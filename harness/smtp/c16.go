package PKGNAME

// C16: authentication secrets never reach the debug log.

var hxC16Mechs = []string{"PLAIN", "LOGIN", "XOAUTH2", "CRAM-MD5", "SCRAM-SHA-256"}
var hxC16Scripts = []string{"success", "reject-first", "reject-last", "bad-base64-challenge", "extra-challenge", "disconnect"}

func HarnessC16Log() {
	hxInstallRand().concrete = true
	mech := svPick("mech", svParam("mechs", len(hxC16Mechs)))
	script := svPick("script", len(hxC16Scripts))
	optIn := svPick("log-auth-data", 2) == 1
	pass := svBytes("secret", svParam("n", 2))
	for _, b := range pass {
		svAssume(b >= 0x21)
		svAssume(b <= 0x7e)
	}
	svSecret(pass)
	s := hxNewSrv([]string{"AUTH PLAIN LOGIN XOAUTH2 CRAM-MD5 SCRAM-SHA-256"})
	s.onlyOK = true
	sc := &hxAuthScript{}
	s.authFn = sc.handle
	var a Auth
	var honest []string
	switch mech {
	case 0:
		a = PlainAuth("", "user", string(pass), "mail.example", true)
		honest = []string{"235 2.7.0 ok"}
	case 1:
		a = LoginAuth("user", string(pass), "mail.example", true)
		honest = []string{"334 VXNlcm5hbWU6", "334 UGFzc3dvcmQ6", "235 2.7.0 ok"}
	case 2:
		a = XOAuth2Auth("user", string(pass))
		honest = []string{"235 2.7.0 ok"}
	case 3:
		a = CRAMMD5Auth("user", string(pass))
		honest = []string{"334 PDEyMzQ1QGV4YW1wbGU+", "235 2.7.0 ok"}
	default:
		a = ScramSHA256Auth("user", string(pass))
		// the scripted server cannot produce a valid exchange; the secret-bearing
		// client-final is still sent before the exchange fails
		honest = []string{"334 ", "334 " + string(hxB64Enc([]byte("r=PLACEHOLDER"))), "535 5.7.8 no"}
	}
	replies := append([]string{}, honest...)
	switch script {
	case 1:
		replies = []string{"535 5.7.8 rejected"}
	case 2:
		replies[len(replies)-1] = "535 5.7.8 rejected"
	case 3:
		replies = []string{"334 ***not-base64***", "235 2.7.0 ok"}
	case 4:
		replies = append(replies[:len(replies)-1], "334 ZXh0cmE=", "235 2.7.0 ok")
	case 5:
		replies = nil
	}
	sc.replies = replies
	if script == 5 {
		sc.dropAfter = 1
	}
	c := hxNewSMTPClient(s)
	lg := &hxLogger{}
	c.SetLogger(lg)
	c.SetDebugLog(true)
	if optIn {
		c.SetLogAuthData()
	}
	if mech == 4 {
		// make the SCRAM server-first extend the real client nonce
		sc.scramFix = true
	}
	authErr := c.Auth(a)
	nAuthRecs := len(lg.recs)
	svReach("auth-returned")
	// secret-bearing lines as seen on the wire (everything after the bare AUTH <mech>)
	var secretLines [][]byte
	for i, l := range sc.lines {
		if i == 0 {
			sp := 0
			n := 0
			for sp < len(l) && n < 2 {
				if l[sp] == ' ' {
					n++
				}
				sp++
			}
			if n == 2 && sp < len(l) {
				secretLines = append(secretLines, l[sp:])
			}
			continue
		}
		if string(l) != "*" && len(l) >= 4 {
			secretLines = append(secretLines, l)
		}
	}
	leaked := false
	for _, r := range lg.recs {
		for _, p := range r.parts {
			if svTainted(p) {
				leaked = true
			}
			if !svIsSymbolic() {
				// native replay: there is no taint, look for the secret-bearing lines verbatim
				for _, sl := range secretLines {
					if mech != 1 || !hxEqBytes(sl, hxB64Enc([]byte("user"))) {
						if hxBytesContain(p, sl) {
							leaked = true
						}
					}
				}
			}
		}
		for _, v := range r.ints {
			if svTaintedInt(v) {
				leaked = true
			}
		}
		if svTainted([]byte(r.format)) {
			leaked = true
		}
	}
	tag := "[" + hxC16Mechs[mech] + "/" + hxC16Scripts[script] + "] "
	if optIn {
		if len(secretLines) > 0 {
			svAssert(leaked, tag+"C16 WithLogAuthData: the AUTH data is not in the log (vacuity witness)")
			svReach("opt-in-logs-auth-data")
		}
	} else {
		svAssert(!leaked, tag+"C16 a log record depends on the secret")
		svReach("redacted-checked")
	}
	// the redaction window closes again: traffic after AUTH is logged verbatim
	if authErr == nil || s.dropped == false {
		if !s.dropped && !s.closed {
			_ = c.Noop()
			found := false
			for _, r := range lg.recs[nAuthRecs:] {
				for _, p := range r.parts {
					if hxBytesContain(p, []byte("NOOP")) {
						found = true
					}
				}
				if hxBytesContain([]byte(r.format), []byte("NOOP")) {
					found = true
				}
			}
			svAssert(found, tag+"C16 traffic after authentication is not logged (redaction window did not close)")
			svReach("post-auth-logged")
		}
	}
}
