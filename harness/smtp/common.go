package PKGNAME

// Harness support for package smtp: UF models of the hash primitives
// (installed through the override table), a recording random source and
// helpers shared by the C14/C15/C16 harnesses.



type hxErrS struct{ s string }

func (e *hxErrS) Error() string { return e.s }

func hxEqBytes(a, b []byte) bool {
	if len(a) != len(b) {
		return false
	}
	var d byte
	for i := range a {
		d |= a[i] ^ b[i]
	}
	return d == 0
}


