package PKGNAME

import (
	"context"
	"crypto/tls"
	"net"
	"time"
)

// C17 with TLS (ghost TLS layer of c07.go): the server goes silent before the
// greeting, at any command - STARTTLS included - or inside the TLS handshake.
func HarnessC17TLSStall() {
	hxTLSConns = map[*tls.Conn]*hxTLSState{}
	hxTLSCfgSeen = nil
	policy := svPick("tls-policy", 3) // 0 mandatory STARTTLS, 1 opportunistic STARTTLS, 2 implicit TLS
	entry := svPick("entry", 2)       // 0 DialWithContext, 1 DialAndSend
	host := "mail.example"
	s := hxNewSrv([]string{"8BITMIME", "STARTTLS"})
	s.onlyOK = true
	s.certName, s.certTrusted = host, true
	s.expectTimeout = 7 * time.Second
	// stall point: -2 = the handshake never completes, -1 = silent before the
	// greeting, k = no reply to command k
	k := svPick("stall", svParam("maxstall", 10)+2) - 2
	switch {
	case k == -2:
		s.hsStall = true
	case k == -1:
		s.out = nil
		s.stalled = true
	default:
		s.stallAt = k
	}
	opts := []Option{WithHELO("client.example"), WithTimeout(7 * time.Second)}
	switch policy {
	case 1:
		opts = append(opts, WithTLSPolicy(TLSOpportunistic))
	case 2:
		opts = append(opts, WithSSL())
	}
	// the configured port answers, or it is closed and the fallback port reaches the server
	refuse := 0
	if svPick("dial-route", 2) == 1 {
		refuse = 1
		switch policy {
		case 0:
			// no fallback port under the mandatory policy: the dial fails
			opts = append(opts, WithTLSPortPolicy(TLSMandatory))
		case 1:
			opts = append(opts, WithTLSPortPolicy(TLSOpportunistic))
		case 2:
			opts = append(opts, WithSSLPort(true))
		}
	}
	under := &hxConn{s: s}
	opts = append(opts, WithDialContextFunc(func(ctx context.Context, network, address string) (net.Conn, error) {
		if refuse > 0 {
			refuse--
			return nil, &hxNetErr{"dial tcp " + address + ": connect: connection refused"}
		}
		if policy == 2 {
			return tls.Client(under, &tls.Config{ServerName: host, MinVersion: tls.VersionTLS12}), nil
		}
		return under, nil
	}))
	c, err := NewClient(host, opts...)
	if err != nil {
		svAssert(false, "setup-newclient")
		return
	}
	s.phase = "dial"
	if entry == 0 {
		err = c.DialWithContext(context.Background())
	} else {
		s.phase = "dial-and-send"
		err = c.DialAndSend(hxTestMsg(0, 1, 0, EncodingQP))
	}
	if s.stalled {
		svReach("stalled")
		if s.hsStall {
			svReach("handshake-stalled")
		}
		svAssert(err != nil, "C17 call returned success although the server went silent")
	} else {
		svReach("stall-point-beyond-dialogue")
		if s.tlsActive {
			svReach("tls-dialogue-complete")
		}
	}
}
