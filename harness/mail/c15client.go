package PKGNAME

import (
	"context"
	"net"
)

// C15 at the mail.Client level: one Client configured for SCRAM-SHA-256 dials
// several times. The earlier connections meet an honest server (a complete
// successful exchange, or one abandoned after the client's proof); on the last
// connection the server may send every sequence of up to `msgs` messages over
// the 11 classes - among them the valid server-final of the previous
// connection's exchange. A dial may only succeed if, on that connection, the
// valid server-final of that connection's exchange was presented and
// acknowledged.

func HarnessC15Client() {
	hxInstallRand().concrete = true
	pass := svBytes("password", 2)
	for _, b := range pass {
		svAssume(b >= 0x21)
		svAssume(b <= 0x7e)
	}
	z := &hxScramSrv{password: pass}
	var cur *hxSrv
	dial := func(ctx context.Context, network, address string) (net.Conn, error) {
		return &hxConn{s: cur}, nil
	}
	c, err := NewClient("mail.example", WithDialContextFunc(dial), WithTLSPolicy(NoTLS), WithHELO("client.example"),
		WithSMTPAuth(SMTPAuthSCRAMSHA256), WithUsername("user"), WithPassword(string(pass)))
	if err != nil {
		svAssert(false, "setup-newclient")
		return
	}
	conns := svParam("conns", 2)
	for k := 0; k < conns; k++ {
		last := k == conns-1
		cur = hxNewSrv([]string{"AUTH SCRAM-SHA-256"})
		cur.onlyOK = true
		cur.authFn = z.handle
		z.sent, z.trace = 0, nil
		wantOK := true
		if last {
			z.script = nil
			z.maxMsgs = svParam("msgs", 3)
		} else if svPick("earlier-connection", 2) == 0 {
			z.script = []int{hxM_EmptyChallenge, hxM_ValidServerFirst, hxM_ValidFinal, hxM_Success235}
			z.maxMsgs = 4
		} else {
			// the server drops out after the client's proof: the exchange is abandoned with its state
			z.script = []int{hxM_EmptyChallenge, hxM_ValidServerFirst, hxM_Fail535}
			z.maxMsgs = 3
			wantOK = false
		}
		derr := c.DialWithContext(context.Background())
		if !last {
			if wantOK {
				svAssert(derr == nil && z.ackedValid, "C15 [client] honest exchange on an earlier connection did not succeed")
			} else {
				svAssert(derr != nil, "C15 [client] dial succeeded although the server answered the proof with 535")
			}
			if derr == nil {
				_ = c.Close()
			}
			continue
		}
		if derr != nil {
			svReach("auth-failed")
			continue
		}
		svReach("auth-succeeded")
		seq := ""
		for _, t := range z.trace {
			seq += t + " "
		}
		svNote("success on the last connection after: " + seq)
		if z.ackedValid {
			svReach("client-ack")
		} else {
			anyFinal := false
			for _, t := range z.trace {
				if t == "empty-challenge" {
					anyFinal = false
				}
				if t == "valid-server-final" || t == "forged-server-final" || t == "empty-state-server-final" || t == "stale-server-final" {
					anyFinal = true
				}
			}
			if anyFinal {
				svAssert(false, "C15 [client] success although the valid server-final of this connection's exchange was never presented")
			} else {
				svAssert(false, "C15 success-without-server-final (bare 235 accepted)")
			}
		}
		_ = c.Close()
	}
}
