package PKGNAME

import (
	"io"
	"io/fs"
)

// C12: WriteTo into a sink that starts failing at byte offset k.
func HarnessC12Sink() {
	defer func() {
		if r := recover(); r != nil {
			if hxIsStop(r) {
				panic(r)
			}
			svAssert(false, "panic")
		}
	}()
	maxp := svParam("parts", 3)
	maxe := svParam("embeds", 2)
	maxa := svParam("atts", 2)
	p := svPick("parts", maxp+1)
	e := svPick("embeds", maxe+1)
	a := svPick("atts", maxa+1)
	me := hxEnc(svPick("menc", svParam("mencs", 3)))
	fe := hxEnc(svPick("fenc", svParam("fencs", 1)))
	m0 := hxBuildShape(p, e, a, me, fe)
	w0 := &hxRecW{}
	n0, err0 := m0.WriteTo(w0)
	svAssert(err0 == nil, "clean-error")
	svAssert(int(n0) == len(w0.buf), "clean-count")
	total := len(w0.buf)
	if total == 0 {
		svReach("empty-output")
		return
	}
	k := svInt("k")
	svAssume(k >= 0)
	svAssume(k < total)
	m := hxBuildShape(p, e, a, me, fe)
	fw := &hxFailW{k: k}
	n, err := m.WriteTo(fw)
	svReach("sink-failed")
	svAssert(err != nil, "silent-success")
	svAssert(int(n) == fw.acc, "count-mismatch")
}

// hxOnceW fails exactly once, at Write call number at (accepting r bytes of
// that call), and works normally before and afterwards.
type hxOnceW struct {
	at    int
	r     int
	calls int
	acc   int
	hit   bool
}

func (w *hxOnceW) Write(p []byte) (int, error) {
	c := w.calls
	w.calls++
	if c == w.at {
		w.hit = true
		n := w.r
		if n > len(p) {
			n = len(p)
		}
		w.acc += n
		return n, hxSinkErr
	}
	w.acc += len(p)
	return len(p), nil
}

// C12: a destination that fails on exactly one Write call (transient error /
// short write) must still make WriteTo report an error.
func HarnessC12Once() {
	defer func() {
		if r := recover(); r != nil {
			if hxIsStop(r) {
				panic(r)
			}
			svAssert(false, "panic")
		}
	}()
	p := svPick("parts", svParam("parts", 2)+1)
	e := svPick("embeds", svParam("embeds", 1)+1)
	a := svPick("atts", svParam("atts", 1)+1)
	me := hxEnc(svPick("menc", 3))
	withBoundary := svPick("boundary", 2) == 1
	build := func() *Msg {
		m := hxBuildShape(p, e, a, me, EncodingB64)
		if withBoundary {
			m.SetBoundary("fixedboundary123")
		}
		return m
	}
	// count the Write calls of a clean render
	cw := &hxOnceW{at: -1}
	n0, err0 := build().WriteTo(cw)
	svAssert(err0 == nil, "clean-error")
	svAssert(int(n0) == cw.acc, "clean-count")
	if cw.calls == 0 {
		return
	}
	at := svPick("at", cw.calls)
	short := svPick("short", 2) // 0: nothing accepted, 1: one byte accepted
	fw := &hxOnceW{at: at, r: short}
	n, err := build().WriteTo(fw)
	if !fw.hit {
		svReach("fault-not-hit")
		return
	}
	svReach("fault-hit")
	svAssert(err != nil, "silent-success")
	svAssert(int(n) == fw.acc, "count-mismatch")
}

// hxFlakyFS serves one file; the first Open (attach time) succeeds, later ones
// fail (mode 1) or hand out a file whose Read fails after the data (mode 2).
type hxFlakyFS struct {
	data  []byte
	mode  int
	opens int
}

type hxFlakyFile struct {
	hxFailRS
	name string
}

func (f *hxFlakyFile) Stat() (fs.FileInfo, error) { return nil, hxProdErr }
func (f *hxFlakyFile) Close() error               { return nil }

func (f *hxFlakyFS) Open(name string) (fs.File, error) {
	f.opens++
	if f.opens == 1 {
		return &hxFlakyFile{hxFailRS: hxFailRS{data: f.data}, name: name}, nil
	}
	if f.mode == 1 {
		return nil, hxProdErr
	}
	return &hxFlakyFile{hxFailRS: hxFailRS{data: f.data, mode: f.mode}, name: name}, nil
}

type hxFailRS struct {
	data []byte
	off  int
	mode int // 1: fail on first read, 2: fail after delivering the data
}

func (r *hxFailRS) Read(p []byte) (int, error) {
	if r.mode == 1 {
		return 0, hxProdFail()
	}
	if r.off >= len(r.data) {
		if r.mode == 2 {
			return 0, hxProdFail()
		}
		return 0, io.EOF
	}
	n := copy(p, r.data[r.off:])
	r.off += n
	return n, nil
}

func (r *hxFailRS) Seek(offset int64, whence int) (int64, error) {
	r.off = 0
	return 0, nil
}

// C12: content producers failing before / after emitting data.
// hxC12Signer, if set, configures S/MIME signing on the message (c12sign.go)
var hxC12Signer func(*Msg) bool

func HarnessC12Producer() {
	defer func() {
		if r := recover(); r != nil {
			if hxIsStop(r) {
				panic(r)
			}
			svAssert(false, "panic")
		}
	}()
	p := svPick("parts", svParam("parts", 2)+1)
	e := svPick("embeds", svParam("embeds", 1)+1)
	a := svPick("atts", svParam("atts", 1)+1)
	n := p + e + a
	if n == 0 {
		return
	}
	me := hxEnc(svPick("menc", 3))
	fe := hxEnc(svPick("fenc", 3))
	victim := svPick("victim", n)
	mode := 1 + svPick("mode", 2)
	hxProdErrKind = 0
	if victim < p {
		// the failing producer is a body writer: what error value it returns is up
		// to the caller (file producers are readers, whose io.EOF means "done")
		hxProdErrKind = svPick("producer-error-kind", svParam("errkinds", len(hxProdErrNames)))
	}
	m := NewMsg(WithEncoding(me))
	_ = m.From("a@b.c")
	_ = m.To("d@e.f")
	m.SetDateWithValue(hxFixedTime)
	m.SetMessageIDWithValue("fixed.id@example.com")
	idx := 0
	for i := 0; i < p; i++ {
		text := hxPartText[i]
		fail := 0
		if idx == victim {
			fail = mode
		}
		wf := func(w io.Writer) (int64, error) {
			if fail == 1 {
				return 0, hxProdFail()
			}
			k, err := w.Write([]byte(text))
			if fail == 2 {
				return int64(k), hxProdFail()
			}
			return int64(k), err
		}
		if i == 0 {
			m.SetBodyWriter(hxPartType[i], wf)
		} else {
			m.AddAlternativeWriter(hxPartType[i], wf)
		}
		idx++
	}
	for i := 0; i < e; i++ {
		fail := 0
		if idx == victim {
			fail = mode
		}
		m.EmbedReadSeeker("emb.png", &hxFailRS{data: []byte(hxFileData[0]), mode: fail}, WithFileEncoding(fe))
		idx++
	}
	for i := 0; i < a; i++ {
		fail := 0
		if idx == victim {
			fail = mode
		}
		if fail != 0 && svPick("attachment-source", 2) == 1 {
			// a file from an fs.FS that opens fine when it is attached and fails when
			// the message is rendered (removed meanwhile / read error)
			if err := m.AttachFromIOFS("dir/att.txt", &hxFlakyFS{data: []byte(hxFileData[1]), mode: fail}, WithFileEncoding(fe)); err != nil {
				svAssert(false, "setup-iofs")
				return
			}
		} else {
			m.AttachReadSeeker("att.txt", &hxFailRS{data: []byte(hxFileData[1]), mode: fail}, WithFileEncoding(fe))
		}
		idx++
	}
	if hxC12Signer != nil && !hxC12Signer(m) {
		return
	}
	w := &hxRecW{}
	cnt, err := m.WriteTo(w)
	svReach("producer-failed")
	svAssert(err != nil, "silent-success")
	svAssert(int(cnt) == len(w.buf), "count-mismatch")
}
