package PKGNAME

// C02: no caller-supplied text can alter the header block.

// hxAllEntities flattens the entity tree (pre-order, containers included).
func hxAllEntities(e *hxEnt, out []*hxEnt) []*hxEnt {
	out = append(out, e)
	for _, k := range e.kids {
		out = hxAllEntities(k, out)
	}
	return out
}

const (
	hxSetSubject = iota
	hxSetGenHeader
	hxSetFromName
	hxSetToName
	hxSetMessageID
	hxSetOrganization
	hxSetUserAgent
	hxSetAttachName
	hxSetWithFileName
	hxSetFileDesc
	hxSetPartDescOpt
	hxSetFileContentID
	hxSetPartDescSetter
	hxSetFromEncWord // From("=?utf-8?q?...?= <addr>"): net/mail decodes the encoded-word, the display name is the value
	hxSetToEncWord   // AddTo(...) likewise
	hxSetCount
)

var hxHexTbl = [16]byte{'0', '1', '2', '3', '4', '5', '6', '7', '8', '9', 'A', 'B', 'C', 'D', 'E', 'F'}

// hxEncWordAddr is an address whose display name is an RFC 2047 Q encoded-word
// in which every byte of v is written as =XX.
func hxEncWordAddr(v string, addr string) string {
	b := []byte("=?utf-8?q?")
	for i := 0; i < len(v); i++ {
		c := v[i]
		b = append(b, '=', hxHexTbl[c>>4], hxHexTbl[c&15])
	}
	b = append(b, "?= <"...)
	b = append(b, addr...)
	b = append(b, '>')
	return string(b)
}

var hxSetterNames = []string{"Subject", "SetGenHeader", "FromFormat", "AddToFormat", "SetMessageIDWithValue", "SetOrganization",
	"SetUserAgent", "AttachReader-name", "WithFileName", "WithFileDescription", "WithPartContentDescription", "WithFileContentID", "Part.SetDescription", "From-encoded-word", "AddTo-encoded-word"}

// hxBuildC02 builds a message in which setter `which` receives value v.
// It returns nil if the setter rejected the value with an error.
func hxBuildC02(which int, v string, menc Encoding, multipart bool, noBody bool) *Msg {
	m := NewMsg(WithEncoding(menc))
	m.SetDateWithValue(hxFixedTime)
	if which != hxSetMessageID {
		m.SetMessageIDWithValue("fixed.id@example.com")
	}
	if which == hxSetFromName {
		if err := m.FromFormat(v, "a@b.c"); err != nil {
			return nil
		}
	} else if which == hxSetFromEncWord {
		if err := m.From(hxEncWordAddr(v, "a@b.c")); err != nil {
			return nil
		}
	} else {
		_ = m.From("a@b.c")
	}
	if which == hxSetToName {
		_ = m.To("first@e.f")
		if err := m.AddToFormat(v, "d@e.f"); err != nil {
			return nil
		}
	} else if which == hxSetToEncWord {
		_ = m.To("first@e.f")
		if err := m.AddTo(hxEncWordAddr(v, "d@e.f")); err != nil {
			return nil
		}
	} else {
		_ = m.To("d@e.f")
	}
	switch which {
	case hxSetSubject:
		m.Subject(v)
	case hxSetGenHeader:
		m.Subject("s")
		m.SetGenHeader(Header("X-Custom"), v)
	case hxSetMessageID:
		m.SetMessageIDWithValue(v)
	case hxSetOrganization:
		m.SetOrganization(v)
	case hxSetUserAgent:
		m.SetUserAgent(v)
	default:
		m.Subject("s")
	}
	var popts []PartOption
	if which == hxSetPartDescOpt {
		popts = append(popts, WithPartContentDescription(v))
	}
	if !noBody {
		m.SetBodyString(TypeTextPlain, "body text\r\n", popts...)
	}
	if which == hxSetPartDescSetter {
		m.GetParts()[0].SetDescription(v)
	}
	needFile := which == hxSetAttachName || which == hxSetWithFileName || which == hxSetFileDesc
	if multipart || needFile || which == hxSetPartDescOpt || which == hxSetPartDescSetter {
		name := "file.txt"
		var fopts []FileOption
		switch which {
		case hxSetAttachName:
			name = v
		case hxSetWithFileName:
			fopts = append(fopts, WithFileName(v))
		case hxSetFileDesc:
			fopts = append(fopts, WithFileDescription(v))
		}
		if err := m.AttachReader(name, &hxRd{data: []byte("file data")}, fopts...); err != nil {
			return nil
		}
	}
	if which == hxSetFileContentID {
		if err := m.EmbedReader("emb.png", &hxRd{data: []byte("embed data")}, WithFileContentID(v)); err != nil {
			return nil
		}
	}
	return m
}

func hxNamesOf(e *hxEnt) []string {
	var r []string
	for _, h := range e.hdrs {
		r = append(r, hxLower([]byte(h.name)))
	}
	return r
}

func hxSanitizeRef(v []byte) []byte {
	r := make([]byte, len(v))
	for i, c := range v {
		if c < 32 || c == 34 || c == 47 || c == 58 || c == 60 || c == 62 || c == 63 || c == 92 || c == 124 || c == 127 {
			c = '_'
		}
		r[i] = c
	}
	return r
}

// hxDisplayName extracts the display name of a single name-addr header value.
func hxDisplayName(v []byte) ([]byte, bool) {
	v = hxTrim(v)
	// strip the trailing <addr>
	j := len(v) - 1
	if j < 0 || v[j] != '>' {
		return nil, false
	}
	for j >= 0 && v[j] != '<' {
		j--
	}
	if j < 0 {
		return nil, false
	}
	n := hxTrim(v[:j])
	if len(n) >= 2 && n[0] == '"' && n[len(n)-1] == '"' {
		q := n[1 : len(n)-1]
		var u []byte
		for i := 0; i < len(q); i++ {
			if q[i] == '\\' && i+1 < len(q) {
				i++
			}
			u = append(u, q[i])
		}
		return u, true
	}
	return hxDecodeWords(n)
}

func HarnessC02Inject() {
	n := svParam("n", 2)
	which := svPick("setter", hxSetCount)
	if only := svParam("only", -1); only >= 0 && which != only {
		return
	}
	menc := hxEnc(svPick("menc", svParam("mencs", 2))) // QP -> Q header encoder, base64 -> B header encoder
	multipart := svPick("multipart", svParam("mps", 2)) == 1
	// file-related setters are also exercised on a message that consists of the
	// file alone (its MIME headers are then part of the top-level header block)
	noBody := false
	if which == hxSetAttachName || which == hxSetWithFileName || which == hxSetFileDesc || which == hxSetFileContentID {
		noBody = svPick("file-only", 2) == 1
	}
	val := svBytes("v", n)
	// the symbolic bytes may sit inside a value that already looks encoded or
	// quoted (structure checks only: what such text should decode to is debatable)
	ctx := svPick("context", svParam("ctxs", 1))
	switch ctx {
	case 1:
		val = append(append([]byte("=?UTF-8?q?Quarterly?="), val...), "=?UTF-8?q?report?="...)
	case 2:
		val = append(append([]byte("\"quoted "), val...), " text\" tail"...)
	}
	hxC02Check(which, val, menc, multipart, noBody, ctx == 0 && n <= svParam("rtmax", 2))
}

var hxC02Runs = []int{2, 75, 76, 200, 1, 3, 60, 74, 77, 80}
var hxC02Tails = []int{1, 72, 73, 60, 71, 80}

// HarnessC02LongValue: values built from a word, a run of blanks of many
// lengths (around the fold column and beyond a whole line), n symbolic bytes
// and a final blank-free token of many lengths (around the line limit).
func HarnessC02LongValue() {
	n := svParam("n", 1)
	setters := []int{hxSetSubject, hxSetGenHeader, hxSetOrganization, hxSetUserAgent, hxSetFileDesc, hxSetPartDescOpt}
	which := setters[svPick("setter", len(setters))]
	menc := hxEnc(svPick("menc", svParam("mencs", 2)))
	noBody := false
	if which == hxSetFileDesc {
		noBody = svPick("file-only", 2) == 1
	}
	run := hxC02Runs[svPick("blank-run", svParam("runs", len(hxC02Runs)))]
	tail := hxC02Tails[svPick("tail-token", svParam("tails", len(hxC02Tails)))]
	lead := svPick("lead-word", 2) // 0: value starts with the blank run's word "Hello", 1: a 58-character word first
	var val []byte
	if lead == 1 {
		for i := 0; i < 58; i++ {
			val = append(val, 'a')
		}
	} else {
		val = append(val, "Hello"...)
	}
	for i := 0; i < run; i++ {
		val = append(val, ' ')
	}
	val = append(val, svBytes("v", n)...)
	for i := 0; i < tail; i++ {
		val = append(val, byte('b'+i%20))
	}
	hxC02Check(which, val, menc, false, noBody, true)
}

func hxC02Check(which int, val []byte, menc Encoding, multipart, noBody, roundTrip bool) {
	v := string(val)
	base := hxBuildC02(which, "benign", menc, multipart && !noBody, noBody)
	if base == nil {
		svAssert(false, "setup-baseline")
		return
	}
	m := hxBuildC02(which, v, menc, multipart && !noBody, noBody)
	if m == nil {
		svReach("setter-rejected")
		return
	}
	svReach("setter-accepted")
	wb := &hxRecW{}
	if _, err := base.WriteTo(wb); err != nil {
		svAssert(false, "baseline-render")
		return
	}
	w := &hxRecW{}
	if _, err := m.WriteTo(w); err != nil {
		// a render error is a rejection, not an injection
		svReach("render-rejected")
		return
	}
	tb := hxParseEntity(wb.buf, 0)
	t := hxParseEntity(w.buf, 0)
	sn := "[" + hxSetterNames[which] + "] "
	svAssert(tb.bad == "", sn+"baseline-malformed:"+tb.bad)
	svAssert(t.bad == "", sn+"malformed:"+t.bad)
	if t.bad != "" {
		return
	}
	eb := hxAllEntities(tb, nil)
	et := hxAllEntities(t, nil)
	svAssert(len(eb) == len(et), sn+"entity-count")
	if len(eb) != len(et) {
		return
	}
	for i := range eb {
		nb, nt := hxNamesOf(eb[i]), hxNamesOf(et[i])
		if len(nb) != len(nt) {
			if len(nt) > len(nb) {
				svAssert(false, sn+"additional-field")
			} else {
				svAssert(false, sn+"missing-field")
			}
			return
		}
		for k := range nb {
			svAssert(nb[k] == nt[k], sn+"field-name-changed")
		}
		// leaf bodies must be untouched
		if len(eb[i].kids) == 0 {
			svAssert(hxEqBytes(eb[i].body, et[i].body), sn+"body-changed")
		}
	}
	if !roundTrip {
		return
	}
	// value round trip
	find := func(lname string) ([]byte, bool) {
		for _, e := range et {
			if hv, k := hxGet(e.hdrs, lname); k > 0 {
				return hv, true
			}
		}
		return nil, false
	}
	var got []byte
	ok := true
	want := val
	switch which {
	case hxSetSubject:
		hv, _ := find("subject")
		got, ok = hxDecodeWords(hv)
	case hxSetGenHeader:
		hv, _ := find("x-custom")
		got, ok = hxDecodeWords(hv)
	case hxSetOrganization:
		hv, _ := find("organization")
		got, ok = hxDecodeWords(hv)
	case hxSetUserAgent:
		hv, _ := find("user-agent")
		got, ok = hxDecodeWords(hv)
	case hxSetMessageID:
		hv, _ := find("message-id")
		got, ok = hxDecodeWords(hv)
		want = append(append([]byte{'<'}, val...), '>')
	case hxSetFromName:
		hv, _ := find("from")
		got, ok = hxDisplayName(hv)
	case hxSetFileDesc, hxSetPartDescOpt, hxSetPartDescSetter:
		hv, _ := find("content-description")
		got, ok = hxDecodeWords(hv)
	case hxSetAttachName, hxSetWithFileName:
		for _, e := range et {
			if e.disp == "attachment" {
				fn, _ := hxParam(e.dparams, "filename")
				got, ok = hxDecodeWords(fn)
			}
		}
		want = hxSanitizeRef(val)
	default:
		return
	}
	svAssert(ok, sn+"value-undecodable")
	if !ok {
		return
	}
	svAssert(hxEqBytes(hxNormWS(got), hxNormWS(want)), sn+"value-roundtrip")
}
