package PKGNAME

import (
	"context"
	"net/mail"
)

// C06: recipients are exactly To+Cc+Bcc, and Bcc stays hidden.

var hxAddrPool = []string{"a0@x.example", "a1@x.example", `"Doe, John" <a2@x.example>`, "Jörg Müller <a3@x.example>"}
var hxAddrOnly = []string{"a0@x.example", "a1@x.example", "a2@x.example", "a3@x.example"}

const hxInvalidAddr = "not an address"

// hxAtextTbl: the printable specials of RFC 5322 atext (letters and digits are
// what the fixed pool addresses are made of)
var hxAtextTbl = func() (t [256]bool) {
	for _, c := range "!#$%&'*+-/=?^_`{|}~" {
		t[c] = true
	}
	return
}()

type hxAddrModel struct {
	to, cc, bcc          []string
	from, envfrom, reply string
	unknown              [3]bool // list touched by an *IgnoreInvalid setter: only subsequence semantics required
}

var hxC06OpNames = []string{"To1", "To2", "AddTo", "AddToFormat", "ToIgnoreInvalid", "ToFromString", "Cc1", "AddCc", "CcIgnoreInvalid",
	"Bcc1", "AddBcc", "BccIgnoreInvalid", "BccFromString", "From", "FromFormat", "EnvelopeFrom", "ReplyTo", "To-invalid", "AddBcc-invalid"}

func hxApplyOp(m *Msg, md *hxAddrModel, op int, a, b int, name string) {
	A, B := hxAddrPool[a], hxAddrPool[b]
	a0, b0 := hxAddrOnly[a], hxAddrOnly[b]
	switch op {
	case 0:
		if m.To(A) == nil {
			md.to = []string{a0}
			md.unknown[0] = false
		}
	case 1:
		if m.To(A, B) == nil {
			md.to = []string{a0, b0}
			md.unknown[0] = false
		}
	case 2:
		if m.AddTo(A) == nil {
			md.to = append(md.to, a0)
		}
	case 3:
		if m.AddToFormat(name, a0) == nil {
			md.to = append(md.to, a0)
		} else {
			svReach("format-rejected")
		}
	case 4:
		m.ToIgnoreInvalid(A, hxInvalidAddr, B)
		md.to = []string{a0, b0}
		md.unknown[0] = true
	case 5:
		if m.ToFromString(a0+", "+b0) == nil {
			md.to = []string{a0, b0}
			md.unknown[0] = false
		}
	case 6:
		if m.Cc(A) == nil {
			md.cc = []string{a0}
			md.unknown[1] = false
		}
	case 7:
		if m.AddCc(A) == nil {
			md.cc = append(md.cc, a0)
		}
	case 8:
		m.CcIgnoreInvalid(hxInvalidAddr, A)
		md.cc = []string{a0}
		md.unknown[1] = true
	case 9:
		if m.Bcc(A) == nil {
			md.bcc = []string{a0}
			md.unknown[2] = false
		}
	case 10:
		if m.AddBcc(A) == nil {
			md.bcc = append(md.bcc, a0)
		}
	case 11:
		m.BccIgnoreInvalid(A, hxInvalidAddr)
		md.bcc = []string{a0}
		md.unknown[2] = true
	case 12:
		if m.BccFromString(a0+","+b0) == nil {
			md.bcc = []string{a0, b0}
			md.unknown[2] = false
		}
	case 13:
		if m.From(A) == nil {
			md.from = a0
		}
	case 14:
		if m.FromFormat(name, a0) == nil {
			md.from = a0
		} else {
			svReach("format-rejected")
		}
	case 15:
		if m.EnvelopeFrom(A) == nil {
			md.envfrom = a0
		}
	case 16:
		if m.ReplyTo(A) == nil {
			md.reply = a0
		}
	case 17:
		// an invalid address must be rejected and leave the list untouched
		svAssert(m.To(A, hxInvalidAddr) != nil, "C06 To accepted an invalid address")
	case 18:
		svAssert(m.AddBcc(hxInvalidAddr) != nil, "C06 AddBcc accepted an invalid address")
	}
}

func hxAddrsOf(l []*mail.Address) []string {
	var r []string
	for _, a := range l {
		r = append(r, a.Address)
	}
	return r
}

func hxEqStrs(a, b []string) bool {
	if len(a) != len(b) {
		return false
	}
	for i := range a {
		if a[i] != b[i] {
			return false
		}
	}
	return true
}

func hxSubseq(sub, full []string) bool {
	j := 0
	for _, s := range sub {
		for j < len(full) && full[j] != s {
			j++
		}
		if j >= len(full) {
			return false
		}
		j++
	}
	return true
}

func HarnessC06Recipients() {
	L := svParam("ops", 2)
	na := svParam("addrs", 3)
	nops := svParam("opkinds", len(hxC06OpNames))
	name := "plain name"
	m := NewMsg()
	latin := svParam("charsets", 1) > 1 && svPick("msg-charset", 2) == 1
	if latin {
		// the message charset is not UTF-8; display names are Go strings all the same
		m = NewMsg(WithCharset(CharsetISO88591))
		name = "J\u00f6rg M\u00fcller"
	}
	m.Subject("c06")
	m.SetDateWithValue(hxFixedTime)
	m.SetMessageIDWithValue("c06@x.example")
	m.SetBodyString(TypeTextPlain, "body\r\n")
	md := &hxAddrModel{}
	symName := false
	// one pool address has a local part with symbolic atext specials
	// (the printable specials a dot-atom may hold: !#$%&'*+-/=?^_`{|}~)
	if nl := svParam("symlocal", 0); nl > 0 {
		lp := svBytes("local", nl)
		for _, c := range lp {
			svAssume(hxAtextTbl[c])
		}
		hxAddrOnly[1] = "a" + string(lp) + "1@x.example"
		hxAddrPool[1] = hxAddrOnly[1]
		svReach("symbolic-local-part")
	}
	// starting point: an empty message, or one that already has a sender and a
	// To recipient (so that short op sequences reach the on-the-wire checks with
	// overlapping To/Cc/Bcc lists)
	if svParam("preset", 0) == 1 {
		hxApplyOp(m, md, 13, 0, 0, name)
		hxApplyOp(m, md, 0, 1%na, 0, name)
	}
	for k := 0; k < L; k++ {
		op := svPick("op", nops)
		a := svPick("a", na)
		b := 0
		if op == 1 || op == 4 || op == 5 || op == 12 {
			b = svPick("b", na)
		}
		if (op == 3 || op == 14) && !symName && !latin {
			symName = true
			nb := svBytes("name", svParam("n", 2))
			for _, c := range nb {
				svAssume(c >= 0x20)
				svAssume(c != 0x7f)
			}
			name = string(nb)
		}
		hxApplyOp(m, md, op, a, b, name)
	}
	to, cc, bcc := hxAddrsOf(m.GetTo()), hxAddrsOf(m.GetCc()), hxAddrsOf(m.GetBcc())
	// (ii) setter semantics against the list model
	chk := func(i int, got, want []string, nm string) {
		if md.unknown[i] {
			svAssert(hxSubseq(got, want), "C06 "+nm+" list is not a subsequence of the valid inputs after IgnoreInvalid")
		} else {
			svAssert(hxEqStrs(got, want), "C06 "+nm+" list differs from the setter semantics (replace/append)")
		}
	}
	chk(0, to, md.to, "To")
	chk(1, cc, md.cc, "Cc")
	chk(2, bcc, md.bcc, "Bcc")
	// (i) consistency of envelope, rendering and getters
	sender, serr := m.GetSender(false)
	wantSender := md.envfrom
	if wantSender == "" {
		wantSender = md.from
	}
	if wantSender == "" {
		svAssert(serr != nil, "C06 GetSender succeeded without From/EnvelopeFrom")
	} else {
		svAssert(serr == nil && sender == wantSender, "C06 envelope sender is not EnvelopeFrom-else-From")
	}
	rcpts, rerr := m.GetRecipients()
	all := append(append(append([]string{}, to...), cc...), bcc...)
	if len(all) == 0 {
		svAssert(rerr != nil, "C06 GetRecipients succeeded without recipients")
	} else {
		svAssert(rerr == nil && hxEqStrs(rcpts, all), "C06 GetRecipients is not To+Cc+Bcc in order")
	}
	// rendered header block
	w := &hxRecW{}
	if _, err := m.WriteTo(w); err != nil {
		svAssert(false, "C06 render error")
		return
	}
	root := hxParseEntity(w.buf, 0)
	svAssert(root.bad == "", "C06 rendered message malformed:"+root.bad)
	if root.bad != "" {
		return
	}
	hdrList := func(lname string, want []*mail.Address, mayBeAbsent bool) {
		v, n := hxGet(root.hdrs, lname)
		if len(want) == 0 {
			if n > 0 {
				// an empty list must not produce a field with addresses
				l, err := mail.ParseAddressList(string(v))
				svAssert(err != nil || len(l) == 0, "C06 "+lname+" header present although the list is empty")
			}
			return
		}
		svAssert(n == 1, "C06 "+lname+" header does not appear exactly once")
		if n != 1 {
			return
		}
		l, err := (&mail.AddressParser{WordDecoder: nil}).ParseList(string(v))
		if err != nil {
			svAssert(false, "C06 "+lname+" header does not parse")
			return
		}
		svAssert(len(l) == len(want), "C06 "+lname+" header has a different number of addresses")
		if len(l) != len(want) {
			return
		}
		for i := range l {
			svAssert(l[i].Address == want[i].Address, "C06 "+lname+" header address differs")
			svAssert(l[i].Name == want[i].Name, "C06 "+lname+" header display name differs")
		}
	}
	hdrList("to", m.GetTo(), true)
	hdrList("cc", m.GetCc(), true)
	hdrList("reply-to", m.GetAddrHeader(HeaderReplyTo), true)
	fromWant := m.GetFrom()
	if len(fromWant) == 0 {
		fromWant = m.GetAddrHeader(HeaderEnvelopeFrom)
	}
	hdrList("from", fromWant, true)
	_, nb := hxGet(root.hdrs, "bcc")
	svAssert(nb == 0, "C06 Bcc header rendered")
	// no Bcc address anywhere in the rendered bytes (unless it is visible for another reason)
	visible := append(append(append([]string{}, to...), cc...), md.from, md.reply)
	if md.from == "" {
		visible = append(visible, md.envfrom)
	}
	for _, b := range bcc {
		vis := false
		for _, v := range visible {
			vis = vis || v == b
		}
		if !vis {
			svAssert(!hxContains(w.buf, []byte(b)), "C06 Bcc address leaked into the rendered message")
			svReach("bcc-hidden")
		}
	}
	// envelope on the wire
	if wantSender == "" || len(all) == 0 {
		return
	}
	s := hxNewSrv([]string{"8BITMIME"})
	s.onlyOK = true
	c := hxNewClient(s)
	if err := c.DialWithContext(context.Background()); err != nil {
		svAssert(false, "setup-dial")
		return
	}
	if err := c.Send(m); err != nil {
		svAssert(false, "C06 send failed against an accepting server")
		return
	}
	svReach("sent")
	var wireFrom string
	var wireRcpts []string
	for _, cm := range s.cmds {
		switch cm.verb {
		case "MAIL":
			wireFrom = hxPath([]byte(cm.line))
		case "RCPT":
			wireRcpts = append(wireRcpts, hxPath([]byte(cm.line)))
		}
	}
	svAssert(wireFrom == wantSender, "C06 MAIL FROM is not the envelope sender")
	svAssert(hxEqStrs(wireRcpts, all), "C06 RCPT commands are not To+Cc+Bcc, one per occurrence")
}
