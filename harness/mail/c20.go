package PKGNAME

import (
	"context"
	"errors"
)

// C20: SendError reflects the server's verdict.

var hxC20Positions = []string{"MAIL0", "RCPT0", "RCPT1", "DATA0", "EOD0", "RSET0", "MAIL1", "RCPT2", "EOD1"}
var hxESCClass [256]byte

func init() {
	hxESCClass['2'], hxESCClass['4'], hxESCClass['5'] = 1, 1, 1
}

func HarnessC20SendError() {
	nm := 1 + svPick("msgs", svParam("msgs", 2))
	pos := hxC20Positions[svPick("position", svParam("positions", 6))]
	esc := svPick("esc-advertised", 2) == 1
	class := svPick("text-class", 4)
	caps := []string{"8BITMIME"}
	if esc {
		caps = append(caps, "ENHANCEDSTATUSCODES")
	}
	s := hxNewSrv(caps)
	s.failPos = pos
	s.symDigits = true
	s.noDrop = true
	// the RSET with which the client abandons the rejected transaction may be
	// refused as well (with digits of its own): the verdict stays the rejection's
	s.cleanupRset = svPick("cleanup-rset-may-fail", svParam("cleanup", 2)) == 1
	escDigit := byte('5')
	if class == 1 {
		escDigit = svByte("esc-class")
		svAssume(hxESCClass[escDigit] == 1)
	}
	var failed *hxCmd
	s.textOf = func(c *hxCmd, ok bool) string {
		if ok {
			return "2.0.0 reply to " + c.mark + " fine"
		}
		if failed == nil {
			failed = c
		} else {
			svReach("cleanup-rset-refused")
		}
		switch class {
		case 1:
			return string([]byte{escDigit}) + ".1.1 reply to " + c.mark + " refused"
		case 2:
			return "reply to " + c.mark + " refused, see 5.7.1 of the policy"
		}
		return "reply to " + c.mark + " refused"
	}
	c := hxNewClient(s)
	if err := c.DialWithContext(context.Background()); err != nil {
		svAssert(false, "setup-dial")
		return
	}
	var msgs []*Msg
	for i := 0; i < nm; i++ {
		msgs = append(msgs, hxTestMsg(i, 2, 0, EncodingQP))
	}
	err := c.Send(msgs...)
	if failed == nil {
		svReach("position-not-reached")
		svAssert(err == nil, "C20 error although every reply was positive")
		for _, m := range msgs {
			svAssert(!m.HasSendError(), "C20 send error although every reply was positive")
		}
		return
	}
	svReach("failure-injected")
	d1, d2, d3 := failed.code[0], failed.code[1], failed.code[2]
	wantCode := int(d1-'0')*100 + int(d2-'0')*10 + int(d3-'0')
	// which message was hit
	victim := -1
	owner := ""
	for _, cm := range s.cmds {
		if cm.verb == "MAIL" {
			owner = hxPath([]byte(cm.line))
		}
		if cm == failed {
			break
		}
	}
	for i, m := range msgs {
		f, _ := m.GetSender(false)
		if f == owner {
			victim = i
		}
	}
	if failed.verb == "RSET" || failed.verb == "EOD" {
		// these belong to the message whose MAIL came last before them
	}
	svAssert(victim >= 0, "setup-victim")
	if victim < 0 {
		return
	}
	nfailed := 0
	for i, m := range msgs {
		if i != victim {
			// with a rejected MAIL/RCPT/DATA the batch goes on; other messages are unaffected
			svAssert(!m.HasSendError(), "C20 unaffected message carries an error")
			continue
		}
		nfailed++
		svAssert(m.HasSendError(), "C20 affected message carries no error")
		var se *SendError
		if !errors.As(m.SendError(), &se) {
			svAssert(false, "C20 Msg.SendError is not a *SendError")
			continue
		}
		var wantReason SendErrReason
		switch failed.verb {
		case "MAIL":
			wantReason = ErrSMTPMailFrom
		case "RCPT":
			wantReason = ErrSMTPRcptTo
		case "DATA":
			wantReason = ErrSMTPData
		case "EOD":
			wantReason = ErrSMTPDataClose
		case "RSET":
			wantReason = ErrSMTPReset
		}
		svAssert(se.Reason == wantReason, "C20 Reason does not name the failing step ("+failed.verb+")")
		svAssert(se.ErrorCode() == wantCode, "C20 ErrorCode differs from the reply code ("+failed.verb+")")
		if se.IsTemp() {
			svAssert(d1 == '4', "C20 IsTemp true for a 5yz reply")
		} else {
			svAssert(d1 != '4', "C20 IsTemp false for a 4yz reply")
		}
		if m.SendErrorIsTemp() {
			svAssert(d1 == '4', "C20 Msg.SendErrorIsTemp true for a 5yz reply")
		} else {
			svAssert(d1 != '4', "C20 Msg.SendErrorIsTemp false for a 4yz reply")
		}
		got := se.EnhancedStatusCode()
		if esc && class == 1 {
			want := string([]byte{escDigit}) + ".1.1"
			svAssert(got == want, "C20 enhanced status code at the start of the reply not reported")
		} else if !esc {
			svAssert(got == "", "C20 enhanced status code reported although ENHANCEDSTATUSCODES was not advertised")
		} else {
			svAssert(got == "", "C20 enhanced status code reported although the reply did not begin with one")
		}
		// rejected recipients
		if failed.verb == "RCPT" {
			rc := hxPath([]byte(failed.line))
			svAssert(len(se.rcpt) == 1 && se.rcpt[0] == rc, "C20 recipient list is not exactly the rejected recipient")
		} else {
			svAssert(len(se.rcpt) == 0, "C20 recipient list not empty although no recipient was rejected")
		}
	}
	// the joined error has one entry per failed message
	svAssert(err != nil, "C20 Send returned nil although a message failed")
	if err != nil {
		type multi interface{ Unwrap() []error }
		if mu, ok := err.(multi); ok {
			svAssert(len(mu.Unwrap()) == nfailed, "C20 joined error does not have one entry per failed message")
		} else {
			svAssert(false, "C20 Send error is not a joined error")
		}
	}
}

// Several rejected recipients in one message: the error lists exactly the
// rejected recipients, and its code, temporariness and enhanced status code
// are those of the LAST rejection.
func HarnessC20MultiRcpt() {
	nr := 2 + svPick("rcpts", svParam("rcpts", 2)) // 2..3 recipients in the first message
	esc := svPick("esc-advertised", 2) == 1
	caps := []string{"8BITMIME"}
	if esc {
		caps = append(caps, "ENHANCEDSTATUSCODES")
	}
	s := hxNewSrv(caps)
	s.failVerb = "RCPT"
	s.symDigits = true
	s.noDrop = true
	s.textOf = func(c *hxCmd, ok bool) string {
		if ok {
			return "2.1.5 reply to " + c.mark + " fine"
		}
		// the enhanced status code carries the class of the reply code
		return string([]byte{c.code[0]}) + ".1.1 reply to " + c.mark + " refused"
	}
	c := hxNewClient(s)
	if err := c.DialWithContext(context.Background()); err != nil {
		svAssert(false, "setup-dial")
		return
	}
	msgs := []*Msg{hxTestMsg(0, nr, 0, EncodingQP), hxTestMsg(1, 1, 0, EncodingQP)}
	err := c.Send(msgs...)
	// what did the server reject, per message?
	var rejected [2][]*hxCmd
	owner := -1
	for _, cm := range s.cmds {
		switch cm.verb {
		case "MAIL":
			owner++
		case "RCPT":
			if owner >= 0 && owner < 2 && cm.code[0] != '2' {
				rejected[owner] = append(rejected[owner], cm)
			}
		}
	}
	nfailed := 0
	for i, m := range msgs {
		rj := rejected[i]
		if len(rj) == 0 {
			svAssert(!m.HasSendError(), "C20 message without a rejected recipient carries an error")
			continue
		}
		nfailed++
		if len(rj) >= 2 {
			svReach("two-rejections")
		}
		svAssert(m.HasSendError(), "C20 message with rejected recipients carries no error")
		var se *SendError
		if !errors.As(m.SendError(), &se) {
			svAssert(false, "C20 Msg.SendError is not a *SendError")
			continue
		}
		svAssert(se.Reason == ErrSMTPRcptTo, "C20 Reason does not name the failing step (RCPT)")
		svAssert(len(se.rcpt) == len(rj), "C20 recipient list is not exactly the rejected recipients")
		if len(se.rcpt) == len(rj) {
			for k := range rj {
				svAssert(se.rcpt[k] == hxPath([]byte(rj[k].line)), "C20 recipient list is not exactly the rejected recipients")
			}
		}
		last := rj[len(rj)-1]
		wantCode := int(last.code[0]-'0')*100 + int(last.code[1]-'0')*10 + int(last.code[2]-'0')
		svAssert(se.ErrorCode() == wantCode, "C20 ErrorCode is not the code of the last rejection")
		if se.IsTemp() {
			svAssert(last.code[0] == '4', "C20 IsTemp true although the last rejection was 5yz")
		} else {
			svAssert(last.code[0] != '4', "C20 IsTemp false although the last rejection was 4yz")
		}
		got := se.EnhancedStatusCode()
		if esc {
			svAssert(got == string([]byte{last.code[0]})+".1.1", "C20 enhanced status code is not that of the last rejection")
		} else {
			svAssert(got == "", "C20 enhanced status code reported although ENHANCEDSTATUSCODES was not advertised")
		}
	}
	if nfailed == 0 {
		svAssert(err == nil, "C20 error although every reply was positive")
		return
	}
	svAssert(err != nil, "C20 Send returned nil although a message failed")
	if err != nil {
		type multi interface{ Unwrap() []error }
		if mu, ok := err.(multi); ok {
			svAssert(len(mu.Unwrap()) == nfailed, "C20 joined error does not have one entry per failed message")
		} else {
			svAssert(false, "C20 Send error is not a joined error")
		}
	}
}
