package PKGNAME

import (
	"context"
	"crypto/tls"
	"errors"
	"net"
)

// C04 across STARTTLS (ghost TLS layer of c07.go): the server's EHLO reply
// after the handshake advertises an independent capability set; ESMTP
// parameters and the local 8BITMIME refusal must follow the LATEST reply.
func HarnessC04AfterTLS() {
	hxTLSConns = map[*tls.Conn]*hxTLSState{}
	hxTLSCfgSeen = nil
	host := "mail.example"
	pick := func(tag string) []string {
		var caps []string
		for _, kw := range []string{"8BITMIME", "DSN", "SMTPUTF8"} {
			if svPick(tag+kw, 2) == 1 {
				caps = append(caps, kw)
			}
		}
		return caps
	}
	before := append(pick("before-tls-"), "STARTTLS")
	after := pick("after-tls-")
	s := hxNewSrv(before)
	s.capsTLS, s.capsTLSSet = after, true
	s.onlyOK = true
	s.monitor = true
	s.certName, s.certTrusted = host, true
	opts := []Option{WithHELO("client.example")}
	if svPick("dsn", 2) == 1 {
		opts = append(opts, WithDSN())
	}
	enc := EncodingQP
	if svPick("msg-8bit", 2) == 1 {
		enc = NoEncoding
	}
	under := &hxConn{s: s}
	opts = append(opts, WithDialContextFunc(func(ctx context.Context, network, address string) (net.Conn, error) { return under, nil }))
	c, err := NewClient(host, opts...)
	if err != nil {
		svAssert(false, "setup-newclient")
		return
	}
	if err := c.DialWithContext(context.Background()); err != nil {
		// (a native replay has the real crypto/tls and cannot get past the
		// handshake with the server model; in the engine the label "sent" below
		// guards against vacuity)
		svReach("dial-failed")
		return
	}
	svAssert(s.tlsActive, "setup-tls")
	msg := hxTestMsg(0, 1, 0, enc)
	serr := c.Send(msg)
	svReach("sent")
	// hxCheckParams (monitor) has checked every MAIL/RCPT parameter against the
	// capabilities of the latest EHLO reply
	if enc == NoEncoding && !hxHasCap(s.ehloCaps, "8BITMIME") {
		for _, cm := range s.cmds {
			svAssert(cm.verb != "MAIL" && cm.verb != "DATA", "C04 8bit message offered although 8BITMIME is not advertised in the latest EHLO reply")
		}
		var cse *SendError
		if !(serr != nil && errors.As(serr, &cse) && cse.Reason == ErrConnCheck) {
			svAssert(msg.HasSendError(), "C04 8bit message without 8BITMIME not reported as failed")
		}
		svReach("8bit-refused")
	} else {
		svAssert(serr == nil, "C04 send failed against an accepting server")
	}
}
