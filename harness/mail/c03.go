package PKGNAME

import (
	"context"
	"errors"
	"io"
	"net"
)

// Shared client-side scaffolding for the dialogue harnesses.

func hxDialFunc(s *hxSrv) DialContextFunc {
	return func(ctx context.Context, network, address string) (net.Conn, error) {
		s.dialed = append(s.dialed, address)
		if s.refuseDials > 0 {
			// the port is closed: a later dial (the fallback port) reaches the server
			s.refuseDials--
			return nil, &hxNetErr{"dial tcp " + address + ": connect: connection refused"}
		}
		return &hxConn{s: s}, nil
	}
}

func hxNewClient(s *hxSrv, opts ...Option) *Client {
	all := append([]Option{WithDialContextFunc(hxDialFunc(s)), WithTLSPolicy(NoTLS), WithHELO("client.example")}, opts...)
	c, err := NewClient("mail.example", all...)
	if err != nil {
		svAssert(false, "setup-newclient")
		svStop()
	}
	return c
}

// hxTestMsg builds message number i of a batch with nr recipients. fail
// selects a failing body producer: 0 none, 1 before writing, 2 after writing.
func hxTestMsg(i, nr, fail int, enc Encoding) *Msg {
	m := NewMsg(WithEncoding(enc))
	from := []string{"s0@a.example", "s1@a.example", "s2@a.example"}[i]
	_ = m.From(from)
	rc := [][]string{{"r00@b.example", "r01@b.example", "r02@b.example"}, {"r10@b.example", "r11@b.example", "r12@b.example"}, {"r20@b.example", "r21@b.example", "r22@b.example"}}[i]
	_ = m.To(rc[:nr]...)
	m.Subject("message " + string(rune('0'+i)))
	m.SetDateWithValue(hxFixedTime)
	m.SetMessageIDWithValue("msg" + string(rune('0'+i)) + "@a.example")
	text := "body of message " + string(rune('0'+i)) + "\r\n.leading dot\r\n..two dots\r\nlast line\r\n"
	if fail == 0 {
		m.SetBodyString(TypeTextPlain, text)
	} else {
		m.SetBodyWriter(TypeTextPlain, func(w io.Writer) (int64, error) {
			if fail == 1 {
				return 0, hxProdFail()
			}
			n, _ := w.Write([]byte(text))
			return int64(n), hxProdFail()
		})
	}
	return m
}

// hxDataAcceptedFor reports whether the server accepted a DATA command inside
// a transaction opened with this message's sender.
func hxDataAcceptedFor(s *hxSrv, m *Msg) bool {
	from, err := m.GetSender(false)
	if err != nil {
		return false
	}
	cur := ""
	for _, c := range s.cmds {
		switch c.verb {
		case "MAIL":
			cur = hxPath([]byte(c.line))
		case "DATA":
			if cur == from && c.code[0] == '3' {
				return true
			}
		}
	}
	return false
}

// C03: only complete messages are committed; IsDelivered tells the truth.
func HarnessC03Commit() {
	nm := 1 + svPick("msgs", svParam("msgs", 2))
	nr := 1 + svPick("rcpts", svParam("rcpts", 2))
	s := hxNewSrv([]string{"8BITMIME", "ENHANCEDSTATUSCODES"})
	s.maxDev = svParam("maxdev", 2)
	s.wideEOD = true // an end-of-data reply of any class: only 2yz acknowledges the message
	s.eodAny2yz = svParam("eod2yz", 0) == 1
	if svParam("ml", 0) == 1 {
		s.multiline = svPick("multiline-replies", 2) == 1
	}
	c := hxNewClient(s)
	// entry point: Dial + Send on the client's own connection, or DialAndSend
	// (a connection private to the call)
	viaDialAndSend := svPick("entry", 2) == 1
	if !viaDialAndSend {
		if err := c.DialWithContext(context.Background()); err != nil {
			svReach("dial-failed")
			return
		}
	}
	svReach("dialled")
	var msgs []*Msg
	fails := make([]int, nm)
	hxProdErrKind = 0
	if ek := svParam("errkinds", 1); ek > 1 {
		hxProdErrKind = svPick("producer-error-kind", ek)
	}
	for i := 0; i < nm; i++ {
		if svParam("producers", 1) == 1 {
			fails[i] = svPick("producer-fault", 3)
		}
		msgs = append(msgs, hxTestMsg(i, nr, fails[i], EncodingQP))
	}
	var err error
	if viaDialAndSend {
		err = c.DialAndSend(msgs...)
	} else {
		err = c.Send(msgs...)
	}
	// every committed payload is the complete rendering of exactly one message
	used := make([]int, nm)
	for ci, cm := range s.commits {
		matched := -1
		for i, m := range msgs {
			if fails[i] != 0 {
				continue // its rendering fails; nothing of it may be committed
			}
			w := &hxRecW{}
			if _, werr := m.WriteTo(w); werr != nil {
				continue
			}
			if hxEqBytes(w.buf, cm.data) {
				matched = i
			}
		}
		_ = ci
		svAssert(matched >= 0, "committed payload is not the complete rendering of a message of the batch")
		if matched >= 0 {
			used[matched]++
			svAssert(used[matched] <= 1, "message committed more than once")
			svReach("committed")
		}
	}
	// IsDelivered <=> the server acknowledged that message's end-of-data with 2yz
	for i, m := range msgs {
		committed := used[i] > 0
		if m.IsDelivered() {
			svAssert(committed, "IsDelivered although the server did not commit the message")
		} else {
			svAssert(!committed, "server committed a message that is not reported as delivered")
		}
		if fails[i] != 0 {
			svAssert(!m.IsDelivered(), "message with failed rendering reported as delivered")
			if hxDataAcceptedFor(s, m) {
				svAssert(m.HasSendError(), "message with failed rendering carries no send error")
			}
		}
		if !m.IsDelivered() && err == nil {
			svAssert(false, "undelivered message but Send returned nil")
		}
	}
	var se *SendError
	if err != nil && errors.As(err, &se) {
		svReach("send-error")
	}
}
