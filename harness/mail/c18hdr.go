package PKGNAME

// C18 (headers): writeHeader folding discipline.

// hxCheckHeaderLines checks the physical lines of one emitted header field:
// CRLF line ends only, no bare CR/LF, length <= 78 unless the line cannot be
// folded (no blank after its leading white space). It returns the unfolded
// field (CRLF before WSP removed) and the number of CRLF-terminated lines.
func hxCheckHeaderLines(out []byte) (unfolded []byte, nlines int) {
	start := 0
	i := 0
	for i < len(out) {
		c := out[i]
		if c == '\n' {
			svAssert(false, "bare-LF")
			return nil, -1
		}
		if c == '\r' {
			if i+1 >= len(out) || out[i+1] != '\n' {
				svAssert(false, "bare-CR")
				return nil, -1
			}
			line := out[start:i]
			hxCheckLineLen(line)
			unfolded = append(unfolded, line...)
			nlines++
			i += 2
			start = i
			if i < len(out) && out[i] != ' ' && out[i] != '\t' {
				svAssert(false, "continuation-without-WSP")
			}
			continue
		}
		i++
	}
	svAssert(start == len(out), "unterminated-line")
	return unfolded, nlines
}

func hxCheckLineLen(line []byte) {
	if len(line) <= 78 {
		return
	}
	// longer lines are only acceptable if they could not have been folded
	j := 0
	for j < len(line) && (line[j] == ' ' || line[j] == '\t') {
		j++
	}
	for ; j < len(line); j++ {
		if line[j] == ' ' {
			svAssert(false, "foldable-line-too-long")
			return
		}
	}
	svReach("long-token-line")
}

// hxCheckPartHeaderLineLen is hxCheckLineLen for the header section of a MIME
// part that carries a long file name or description (own label: see
// known_findings.json).
func hxCheckPartHeaderLineLen(line []byte) {
	if len(line) <= 78 {
		return
	}
	j := 0
	for j < len(line) && (line[j] == ' ' || line[j] == '\t') {
		j++
	}
	for ; j < len(line); j++ {
		if line[j] == ' ' {
			svAssert(false, "part-header-line-too-long (long file name or description in a MIME part header)")
			return
		}
	}
}

var hxKeyLens = []int{1, 7, 40, 60, 64, 66, 68, 69, 70, 71, 72, 73, 74, 75, 76, 77, 78, 90}

// Short fully symbolic values (blank positions decided by the solver) with
// keys long enough to put the fold decision inside the value.
func HarnessC18Header() {
	maxn := svParam("maxn", 6)
	klen := hxKeyLens[svPick("klen", svParam("klens", len(hxKeyLens)))]
	n := svPick("n", maxn+1)
	val := svBytes("v", n)
	for _, b := range val {
		svAssume(b >= 0x20)
		svAssume(b <= 0x7e)
	}
	key := make([]byte, klen)
	for i := range key {
		key[i] = 'K'
	}
	w := &hxRecW{}
	mw := &msgWriter{writer: w}
	lines := mw.writeHeader(Header(string(key)), string(val))
	svAssert(mw.err == nil, "error")
	unf, nl := hxCheckHeaderLines(w.buf)
	if nl < 0 {
		return
	}
	if nl > 1 {
		svReach("folded")
	}
	svAssert(lines == nl, "line-count")
	want := append(append(append([]byte{}, key...), ':', ' '), val...)
	svAssert(hxEqBytes(hxNormWS(unf), hxNormWS(want)), "unfold-mismatch")
}

// Long words: word lengths are symbolic integers (case split by the solver).
func HarnessC18HeaderLong() {
	lo := svParam("lo", 68)
	hi := svParam("hi", 80)
	nw := svParam("words", 2)
	klen := svInt("klen")
	svAssume(klen >= 1)
	svAssume(klen <= svParam("kmax", 12))
	var val []byte
	for wi := 0; wi < nw; wi++ {
		l := svInt("wlen")
		small := l >= 0
		if small {
			small = l <= 2
		}
		mid := l >= lo
		if mid {
			mid = l <= hi
		}
		svAssume(small || mid || l == 300)
		word := make([]byte, l)
		for i := range word {
			word[i] = 'a' + byte(wi)
		}
		if wi > 0 {
			val = append(val, ' ')
			if svPick("dblblank", 2) == 1 {
				val = append(val, ' ')
			}
		}
		val = append(val, word...)
	}
	key := make([]byte, klen)
	for i := range key {
		key[i] = 'K'
	}
	w := &hxRecW{}
	mw := &msgWriter{writer: w}
	lines := mw.writeHeader(Header(string(key)), string(val))
	unf, nl := hxCheckHeaderLines(w.buf)
	if nl < 0 {
		return
	}
	if nl > 1 {
		svReach("folded")
	}
	svAssert(lines == nl, "line-count")
	want := append(append(append([]byte{}, key...), ':', ' '), val...)
	svAssert(hxEqBytes(hxNormWS(unf), hxNormWS(want)), "unfold-mismatch")
}

// Whole messages: every physical line of a rendered multipart message - the
// generated Content-Type lines with their boundary parameter included - obeys
// the line discipline, for caller-chosen boundaries of every length 1..70 and
// for generated ones.
func HarnessC18Message() {
	L := svPick("boundary-length", svParam("maxblen", 70)+1) // 0: generated boundary
	shape := svPick("shape", 4)                               // 0 alternative, 1 mixed, 2 related, 3 mixed > related > alternative (generated boundary only)
	menc := hxEnc(svPick("menc", 2))                          // quoted-printable, base64
	if shape == 3 && L != 0 {
		return // a caller-chosen boundary is documented for a single multipart level only
	}
	m := NewMsg(WithEncoding(menc))
	if L > 0 {
		b := make([]byte, L)
		for i := range b {
			b[i] = "0123456789abcdefghijklmnopqrstuvwxyz"[i%36]
		}
		m.SetBoundary(string(b))
	}
	_ = m.From("a@b.c")
	_ = m.To("d@e.f")
	m.Subject("line discipline")
	m.SetDateWithValue(hxFixedTime)
	m.SetMessageIDWithValue("c18@b.c")
	// long file names and descriptions put long values into the MIME part headers
	long := svPick("long-part-header-values", 2) == 1
	aname, ename, desc := "att.txt", "emb.png", ""
	if long {
		aname = "an attachment with a file name long enough to need folding 0123456789.txt"
		ename = "an-embedded-image-with-a-file-name-long-enough-to-need-folding-0123456789.png"
		desc = "a description of the first body part that is long enough to need folding, twice even, so it goes on"
	}
	var popts []PartOption
	if desc != "" {
		popts = append(popts, WithPartContentDescription(desc))
	}
	m.SetBodyString(TypeTextPlain, hxPartText[0], popts...)
	if shape == 0 || shape == 3 {
		m.AddAlternativeString(hxPartType[1], hxPartText[1])
	}
	if shape == 1 || shape == 3 {
		_ = m.AttachReader(aname, &hxRd{data: []byte(hxFileData[1])}, WithFileDescription(desc))
	}
	if shape == 2 || shape == 3 {
		_ = m.EmbedReader(ename, &hxRd{data: []byte(hxFileData[0])})
	}
	w := &hxRecW{}
	if _, err := m.WriteTo(w); err != nil {
		svAssert(false, "render-error")
		return
	}
	svReach("rendered")
	out := w.buf
	if !hxCheckAllLines(out, long) {
		return
	}
	root := hxParseEntity(out, 0)
	svAssert(root.bad == "", "malformed:"+root.bad)
}

// hxCheckAllLines applies the line discipline to every physical line of a
// rendered message; it returns false if the line structure itself is broken.
func hxCheckAllLines(out []byte, long bool) bool {
	start := 0
	inHeader, partLevel := true, false
	for i := 0; i < len(out); i++ {
		c := out[i]
		if c == '\n' {
			svAssert(false, "bare-LF")
			return false
		}
		if c == '\r' {
			if i+1 >= len(out) || out[i+1] != '\n' {
				svAssert(false, "bare-CR")
				return false
			}
			line := out[start:i]
			switch {
			case len(line) == 0:
				inHeader = false
			case len(line) > 2 && line[0] == '-' && line[1] == '-':
				// a boundary delimiter: the header section of a part follows
				inHeader, partLevel = true, true
			}
			if inHeader && partLevel && long {
				hxCheckPartHeaderLineLen(line)
			} else {
				hxCheckLineLen(line)
			}
			i++
			start = i + 1
		}
	}
	svAssert(start == len(out), "unterminated-line")
	return true
}

// Multi-value generic headers (SetGenHeader(h, v1, v2, ...)): the values are
// joined and folded; lengths of the first value around every fold position.
func HarnessC18MultiValue() {
	L := 1 + svPick("first-value-length", svParam("maxlen", 100))
	nv := 2 + svPick("values", 2)
	menc := hxEnc(svPick("menc", 2))
	m := NewMsg(WithEncoding(menc))
	_ = m.From("a@b.c")
	_ = m.To("d@e.f")
	m.Subject("multi value")
	m.SetDateWithValue(hxFixedTime)
	m.SetMessageIDWithValue("c18@b.c")
	v1 := make([]byte, L)
	for i := range v1 {
		v1[i] = byte('k')
	}
	vals := []string{string(v1), "second-list-entry", "third entry with blanks"}[:nv]
	m.SetGenHeader(Header("Keywords"), vals...)
	m.SetBodyString(TypeTextPlain, hxPartText[0])
	w := &hxRecW{}
	if _, err := m.WriteTo(w); err != nil {
		svAssert(false, "render-error")
		return
	}
	svReach("rendered")
	if !hxCheckAllLines(w.buf, false) {
		return
	}
	root := hxParseEntity(w.buf, 0)
	svAssert(root.bad == "", "malformed:"+root.bad)
	if root.bad != "" {
		return
	}
	for _, want := range []string{"from", "to", "subject", "date", "message-id", "mime-version", "content-type"} {
		_, k := hxGet(root.hdrs, want)
		svAssert(k == 1, "header field missing from the header section after a multi-value field: "+want)
	}
	hv, k := hxGet(root.hdrs, "keywords")
	svAssert(k == 1, "multi-value-field-count")
	want := vals[0]
	for _, v := range vals[1:] {
		want += ", " + v
	}
	svAssert(hxEqBytes(hxNormWS(hv), hxNormWS([]byte(want))), "multi-value field does not unfold to the values that were set")
}
