package PKGNAME

import (
	"context"
	"errors"
)

// C04: the SMTP dialogue stays legal and in step under every reply script.

func hxIndex(hay, needle string) int {
	for i := 0; i+len(needle) <= len(hay); i++ {
		if hay[i:i+len(needle)] == needle {
			return i
		}
	}
	return -1
}

// hxBlamedCmd finds the command whose reply text is quoted in an error string.
func hxBlamedCmd(s *hxSrv, text string) *hxCmd {
	i := hxIndex(text, "reply to cmd")
	if i < 0 || i+14 > len(text) {
		return nil
	}
	mark := text[i+9 : i+14]
	for _, c := range s.cmds {
		if c.mark == mark {
			return c
		}
	}
	return nil
}

func HarnessC04Dialogue() {
	nm := 1 + svPick("msgs", svParam("msgs", 2))
	nr := 1 + svPick("rcpts", svParam("rcpts", 2))
	var caps []string
	cap8 := svPick("cap-8bitmime", 2) == 1
	capDSN := svPick("cap-dsn", 2) == 1
	capUTF8 := false
	if svParam("utf8cap", 0) == 1 {
		capUTF8 = svPick("cap-smtputf8", 2) == 1
	}
	if cap8 {
		caps = append(caps, "8BITMIME")
	}
	if capDSN {
		caps = append(caps, "DSN")
	}
	if capUTF8 {
		caps = append(caps, "SMTPUTF8")
	}
	caps = append(caps, "ENHANCEDSTATUSCODES")
	s := hxNewSrv(caps)
	s.monitor = true
	s.maxDev = svParam("maxdev", 2)
	if svParam("ml", 1) == 1 {
		// a conforming server may answer any command with a multi-line reply
		s.multiline = svPick("multiline-replies", 2) == 1
	}
	var opts []Option
	dsn := svPick("dsn", svParam("dsnmodes", 3))
	switch dsn {
	case 1:
		opts = append(opts, WithDSN())
	case 2:
		opts = append(opts, WithDSNMailReturnType(DSNMailReturnHeadersOnly), WithDSNRcptNotifyType(DSNRcptNotifyNever))
	}
	enc := EncodingQP
	if svPick("msg-8bit", 2) == 1 {
		enc = NoEncoding
	}
	c := hxNewClient(s, opts...)
	if err := c.DialWithContext(context.Background()); err != nil {
		svReach("dial-failed")
		svAssert(!s.blockedRead, "C04 client waited for a reply that no command caused")
		return
	}
	var msgs []*Msg
	for i := 0; i < nm; i++ {
		msgs = append(msgs, hxTestMsg(i, nr, 0, enc))
	}
	err := c.Send(msgs...)
	svReach("sent")
	svAssert(!s.blockedRead, "C04 client waited for a reply that no command caused")
	// an 8bit message without 8BITMIME must be refused locally
	if enc == NoEncoding && !hxHasCap(s.ehloCaps, "8BITMIME") {
		for _, cm := range s.cmds {
			svAssert(cm.verb != "MAIL" && cm.verb != "DATA", "C04 8bit message offered although 8BITMIME is not advertised")
		}
		var cse *SendError
		connCheckFailed := err != nil && errors.As(err, &cse) && cse.Reason == ErrConnCheck
		if !connCheckFailed {
			for _, m := range msgs {
				svAssert(m.HasSendError(), "C04 8bit message without 8BITMIME not reported as failed")
			}
		}
		if len(s.cmds) > 0 {
			svReach("8bit-refused")
		}
	}
	// reply attribution: the reply quoted in a message's error must be a non-OK
	// reply of a command that belongs to that message's transaction
	for i, m := range msgs {
		if !m.HasSendError() {
			continue
		}
		var se *SendError
		if !errors.As(m.SendError(), &se) {
			svAssert(false, "C04 send error is not a *SendError")
			continue
		}
		text := se.Error()
		bc := hxBlamedCmd(s, text)
		if bc == nil {
			continue // local error or dropped connection: no server text to attribute
		}
		svReach("attributed")
		ok := bc.code[0]
		expect := byte('2')
		if bc.verb == "DATA" {
			expect = '3'
		}
		svAssert(ok != expect, "C04 an accepted command's reply is reported as the failure")
		// the blamed command must lie in this message's part of the session
		from, _ := m.GetSender(false)
		owner := ""
		for _, cm := range s.cmds {
			if cm.verb == "MAIL" {
				owner = hxPath([]byte(cm.line))
			}
			if cm == bc {
				break
			}
		}
		if owner != "" {
			svAssert(owner == from, "C04 failure reply attributed to another message's transaction")
		}
		_ = i
	}
	_ = err
}
