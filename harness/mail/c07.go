package PKGNAME

import (
	"context"
	"crypto/tls"
	"net"
	"time"
)

// C07: TLS policy and credential confidentiality, with a ghost TLS layer:
// crypto/tls.Client and the methods of *tls.Conn are replaced (override
// table) by the models below. A handshake succeeds only if the certificate
// the harness server presents is trusted and valid for cfg.ServerName (or
// verification was switched off); bytes written through an established ghost
// connection reach the reference server without passing the cleartext tap.

type hxTLSState struct {
	under     *hxConn
	cfg       *tls.Config
	done      bool
	failed    bool
	certName  string // name in the certificate the server presents
	trusted   bool
	garbage   bool // the peer does not speak TLS at all
	closed    bool
}

var hxTLSConns = map[*tls.Conn]*hxTLSState{}
var hxTLSCfgSeen []*tls.Config

type hxTLSErr struct{ s string }

func (e *hxTLSErr) Error() string { return e.s }

func hxTLSClient(conn net.Conn, cfg *tls.Config) *tls.Conn {
	tc := new(tls.Conn)
	st := &hxTLSState{cfg: cfg}
	if u, ok := conn.(*hxConn); ok {
		st.under = u
		st.certName, st.trusted, st.garbage = u.s.certName, u.s.certTrusted, u.s.tlsGarbage
	}
	hxTLSConns[tc] = st
	hxTLSCfgSeen = append(hxTLSCfgSeen, cfg)
	return tc
}

func hxTLSHandshake(st *hxTLSState) error {
	if st.done {
		return nil
	}
	if st.failed {
		return &hxTLSErr{"tls: handshake failed earlier"}
	}
	if st.under.s.hsStall {
		// silent peer during the handshake: returns only when a deadline expires
		s := st.under.s
		s.stalled = true
		st.failed = true
		if !s.deadlineSet {
			svAssert(false, "C17 TLS handshake with a silent peer and no deadline armed ("+s.phase+")")
		}
		return hxTimeoutErr{}
	}
	ok := !st.garbage && st.cfg != nil && (st.cfg.InsecureSkipVerify || (st.trusted && st.certName == st.cfg.ServerName))
	if !ok {
		st.failed = true
		if st.garbage {
			return &hxTLSErr{"tls: first record does not look like a TLS handshake"}
		}
		return &hxTLSErr{"tls: failed to verify certificate"}
	}
	st.done = true
	st.under.s.tlsActive = true
	// RFC 3207: the server forgets the EHLO state after the handshake
	st.under.s.heloDone = false
	st.under.s.state = hxStConnected
	svReach("tls-active")
	return nil
}

func hxTLSWrite(c *tls.Conn, p []byte) (int, error) {
	st := hxTLSConns[c]
	if err := hxTLSHandshake(st); err != nil {
		return 0, err
	}
	if st.under.s.closed {
		return 0, &hxNetErr{"use of closed network connection"}
	}
	st.under.s.encBytes += len(p)
	st.under.s.feed(p)
	return len(p), nil
}

func hxTLSRead(c *tls.Conn, p []byte) (int, error) {
	st := hxTLSConns[c]
	if err := hxTLSHandshake(st); err != nil {
		return 0, err
	}
	st.under.s.viaTLS = true
	n, err := st.under.Read(p)
	st.under.s.viaTLS = false
	return n, err
}

func hxTLSClose(c *tls.Conn) error {
	st := hxTLSConns[c]
	st.closed = true
	return st.under.Close()
}

func hxTLSSetDeadline(c *tls.Conn, t time.Time) error { return hxTLSConns[c].under.SetDeadline(t) }

func hxTLSConnState(c *tls.Conn) tls.ConnectionState {
	st := hxTLSConns[c]
	return tls.ConnectionState{HandshakeComplete: st.done, Version: tls.VersionTLS12, TLSUnique: []byte{1, 2, 3, 4, 5, 6, 7, 8, 9, 10, 11, 12}, ServerName: st.cfg.ServerName}
}

var hxAuthTypes = []SMTPAuthType{SMTPAuthNoAuth, SMTPAuthPlain, SMTPAuthPlainNoEnc, SMTPAuthLogin, SMTPAuthLoginNoEnc, SMTPAuthCramMD5,
	SMTPAuthXOAUTH2, SMTPAuthSCRAMSHA1, SMTPAuthSCRAMSHA256, SMTPAuthSCRAMSHA1PLUS, SMTPAuthSCRAMSHA256PLUS, SMTPAuthAutoDiscover, SMTPAuthCustom}

var hxHosts = []string{"mail.example", "localhost", "localhost.mail.example", "127.0.0.1", "::1", "LOCALHOST.example"}

// hxAuthAny answers any AUTH exchange: one 334 challenge, then 235.
func hxAuthAny(s *hxSrv, line string) {
	c := s.cmds[len(s.cmds)-1]
	c.verb = "AUTH"
	if line == "*" {
		s.inAuth = false
		s.out = append(s.out, "501 5.7.0 aborted\r\n"...)
		return
	}
	s.authStep++
	if s.authStep <= s.authChallenges {
		s.inAuth = true
		s.out = append(s.out, "334 PDEyMzQ1QGV4YW1wbGU+\r\n"...)
		return
	}
	s.inAuth = false
	s.out = append(s.out, "235 2.7.0 ok\r\n"...)
}

func HarnessC07TLS() {
	hxInstallRand().concrete = true
	hxTLSConns = map[*tls.Conn]*hxTLSState{}
	hxTLSCfgSeen = nil
	policy := svPick("policy", 4) // 0 mandatory (default), 1 opportunistic, 2 none, 3 implicit TLS
	at := hxAuthTypes[svPick("authtype", svParam("authtypes", len(hxAuthTypes)))]
	host := hxHosts[svPick("host", svParam("hosts", 2))]
	offer := svPick("starttls-offered", 2) == 1
	// advertised AUTH mechanisms: a symbolic subset
	var mechs string
	for _, mname := range []string{"PLAIN", "LOGIN", "CRAM-MD5", "XOAUTH2", "SCRAM-SHA-1", "SCRAM-SHA-256", "SCRAM-SHA-1-PLUS", "SCRAM-SHA-256-PLUS"} {
		adv := true
		if at == SMTPAuthAutoDiscover && (mname == "PLAIN" || mname == "LOGIN" || mname == "CRAM-MD5" || mname == "SCRAM-SHA-256") {
			// for auto-discovery the advertised list decides: every subset of the four
			adv = svPick("adv-"+mname, 2) == 1
		} else if at == SMTPAuthAutoDiscover {
			adv = false
		}
		if adv {
			mechs += " " + mname
		}
	}
	caps := []string{"8BITMIME"}
	if offer {
		caps = append(caps, "STARTTLS")
	}
	if mechs != "" {
		caps = append(caps, "AUTH"+mechs)
	}
	s := hxNewSrv(caps)
	s.onlyOK = true
	s.authFn = hxAuthAny
	s.authChallenges = svPick("auth-challenges", 3)
	// server behaviour at STARTTLS and in the handshake
	s.starttlsReply = svPick("starttls-reply", 4) // 0: 220, 1: 454, 2: 501, 3: garbage line
	hs := svPick("handshake", 4)                  // 0 ok, 1 wrong-name certificate, 2 untrusted certificate, 3 garbage
	s.certName, s.certTrusted, s.tlsGarbage = host, true, false
	switch hs {
	case 1:
		s.certName = "other.example"
	case 2:
		s.certTrusted = false
	case 3:
		s.tlsGarbage = true
	}
	pass := svBytes("password", svParam("n", 2))
	for _, b := range pass {
		svAssume(b >= 0x21)
		svAssume(b <= 0x7e)
	}
	svSecret(pass)
	opts := []Option{WithHELO("client.example"), WithUsername("user"), WithPassword(string(pass))}
	switch policy {
	case 1:
		opts = append(opts, WithTLSPolicy(TLSOpportunistic))
	case 2:
		opts = append(opts, WithTLSPolicy(NoTLS))
	case 3:
		opts = append(opts, WithSSL())
	}
	if at == SMTPAuthCustom {
		opts = append(opts, WithSMTPAuthCustom(hxPlainCustom(string(pass), host)))
	} else {
		opts = append(opts, WithSMTPAuth(at))
	}
	under := &hxConn{s: s}
	var implicit *tls.Conn
	opts = append(opts, WithDialContextFunc(func(ctx context.Context, network, address string) (net.Conn, error) {
		if policy == 3 {
			// implicit TLS: what tls.Dialer would hand out
			implicit = tls.Client(under, &tls.Config{ServerName: host, MinVersion: tls.VersionTLS12})
			return implicit, nil
		}
		return under, nil
	}))
	c, err := NewClient(host, opts...)
	if err != nil {
		svAssert(false, "setup-newclient")
		return
	}
	derr := c.DialWithContext(context.Background())
	if derr == nil {
		svReach("dial-ok")
		_ = c.Send(hxTestMsg(0, 1, 0, EncodingQP))
	} else {
		svReach("dial-failed")
	}
	tag := "[" + []string{"mandatory", "opportunistic", "notls", "implicit"}[policy] + "/" + string(at) + "] "
	// the tls.Config handed to the TLS layer
	for _, cfg := range hxTLSCfgSeen {
		svAssert(cfg != nil && cfg.ServerName == host, tag+"C07 tls.Config.ServerName is not the configured host")
		svAssert(cfg != nil && !cfg.InsecureSkipVerify, tag+"C07 certificate verification switched off")
		svAssert(cfg != nil && cfg.MinVersion >= tls.VersionTLS12, tag+"C07 MinVersion below TLS 1.2")
	}
	// cleartext chunks
	localhost := host == "localhost" || host == "127.0.0.1" || host == "::1"
	noenc := at == SMTPAuthPlainNoEnc || at == SMTPAuthLoginNoEnc
	for _, ch := range s.clear {
		l := ch
		for len(l) > 0 && (l[len(l)-1] == '\n' || l[len(l)-1] == '\r') {
			l = l[:len(l)-1]
		}
		verb := ""
		if !svTainted(l) {
			sp := 0
			for sp < len(l) && l[sp] != ' ' {
				sp++
			}
			verb = hxUpper(l[:sp])
		}
		switch policy {
		case 0:
			ok := verb == "EHLO" || verb == "HELO" || verb == "STARTTLS" || verb == "QUIT"
			svAssert(ok, tag+"C07 mandatory TLS: cleartext command other than EHLO/HELO/STARTTLS/QUIT before the handshake")
		case 3:
			svAssert(false, tag+"C07 implicit TLS: cleartext bytes on the wire")
		}
		if svTainted(l) {
			svReach("secret-in-cleartext")
			// the property names PLAIN and LOGIN passwords (XOAUTH2 tokens and CRAM/SCRAM proofs are not part of it)
			secretRevealing := at == SMTPAuthPlain || at == SMTPAuthPlainNoEnc || at == SMTPAuthLogin || at == SMTPAuthLoginNoEnc // auto-discovery: see the dedicated assertion below
			if secretRevealing && at != SMTPAuthCustom {
				svAssert(noenc || localhost, tag+"C07 password sent in cleartext without a *-NOENC type or a localhost server")
			}
		}
	}
	// auto-discovery: a password-revealing mechanism must never be selected on an
	// unencrypted connection (no localhost exception in this clause)
	if at == SMTPAuthAutoDiscover {
		for _, ch := range s.clear {
			if len(ch) >= 10 && !svTainted(ch[:10]) {
				l := string(ch[:10])
				svAssert(l != "AUTH PLAIN" && l != "AUTH LOGIN", tag+"C07 auto-discovery selected a password-revealing mechanism on an unencrypted connection")
			}
			if len(ch) >= 12 && !svTainted(ch[:12]) {
				svAssert(string(ch[:12]) != "AUTH XOAUTH2", tag+"C07 auto-discovery selected a password-revealing mechanism on an unencrypted connection")
			}
		}
	}
	if s.tlsActive {
		svReach("encrypted-session")
	}
}

// hxPlainCustom is a caller supplied smtp.Auth (SMTPAuthCustom): outside the
// confidentiality claim, included so that all 13 types are exercised.
func hxPlainCustom(pass, host string) *hxCustomAuth { return &hxCustomAuth{pass: pass} }
