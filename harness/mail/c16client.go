package PKGNAME

import (
	"context"

	"github.com/wneessen/go-mail/smtp"
)

// C16 at the mail.Client level: with WithDebugLog and a caller-supplied logger,
// no record written during or after a dial - by the smtp layer or by the Client
// itself - depends on the password, for every way the Client can be given its
// credentials, whether the server accepts or rejects them.

type hxSecretAuth struct {
	user, pass string
}

func (a *hxSecretAuth) Start(server *smtp.ServerInfo) (string, []byte, error) {
	return "PLAIN", []byte("\x00" + a.user + "\x00" + a.pass), nil
}
func (a *hxSecretAuth) Next(fromServer []byte, more bool) ([]byte, error) { return nil, nil }

var hxC16ClientAuths = []string{"PLAIN-NOENC", "LOGIN-NOENC", "CUSTOM", "AUTODISCOVER"}

func HarnessC16Client() {
	how := svPick("auth", len(hxC16ClientAuths))
	reject := svPick("server-rejects", 2) == 1
	optIn := svPick("log-auth-data", 2) == 1
	pass := svBytes("secret", svParam("n", 2))
	for _, b := range pass {
		svAssume(b >= 0x21)
		svAssume(b <= 0x7e)
	}
	svSecret(pass)
	s := hxNewSrv([]string{"8BITMIME", "AUTH PLAIN LOGIN"})
	s.onlyOK = true
	s.authFn = hxAuthSimple
	if reject {
		s.authFn = func(s *hxSrv, line string) {
			s.cmds[len(s.cmds)-1].verb = "AUTH"
			s.inAuth = false
			s.out = append(s.out, "535 5.7.8 authentication credentials invalid\r\n"...)
		}
	}
	lg := &hxLogger{}
	opts := []Option{WithDebugLog(), WithLogger(lg), WithUsername("user"), WithPassword(string(pass))}
	if optIn {
		opts = append(opts, WithLogAuthData())
	}
	host := "mail.example"
	switch how {
	case 0:
		opts = append(opts, WithSMTPAuth(SMTPAuthPlainNoEnc))
	case 1:
		opts = append(opts, WithSMTPAuth(SMTPAuthLoginNoEnc))
	case 2:
		opts = append(opts, WithSMTPAuthCustom(&hxSecretAuth{user: "user", pass: string(pass)}))
	default:
		// auto-discovery only picks a password-revealing mechanism for localhost
		host = "localhost"
		opts = append(opts, WithSMTPAuth(SMTPAuthAutoDiscover))
	}
	all := append([]Option{WithDialContextFunc(hxDialFunc(s)), WithTLSPolicy(NoTLS), WithHELO("client.example")}, opts...)
	c, err := NewClient(host, all...)
	if err != nil {
		svAssert(false, "setup-newclient")
		return
	}
	derr := c.DialWithContext(context.Background())
	if derr == nil {
		svReach("dial-ok")
		_ = c.Send(hxTestMsg(0, 1, 0, EncodingQP))
		_ = c.Close()
	} else {
		svReach("dial-failed")
	}
	sawAuth := false
	for _, cm := range s.cmds {
		if cm.verb == "AUTH" || cm.verb == "AUTH-CONT" {
			sawAuth = true
		}
	}
	leaked := false
	for _, r := range lg.recs {
		for _, p := range r.parts {
			if svTainted(p) {
				leaked = true
			}
			if !svIsSymbolic() && len(pass) > 0 && (hxBytesContain(p, pass) || hxBytesContain(p, hxB64Enc(pass))) {
				leaked = true
			}
		}
		for _, v := range r.ints {
			if svTaintedInt(v) {
				leaked = true
			}
		}
		if svTainted([]byte(r.format)) {
			leaked = true
		}
	}
	tag := "[client/" + hxC16ClientAuths[how] + "] "
	if !optIn {
		svAssert(!leaked, tag+"C16 a log record depends on the secret")
		svReach("redacted-checked")
	} else if sawAuth {
		svReach("opt-in")
	}
	if sawAuth {
		svReach("auth-attempted")
	}
}
