package PKGNAME

import (
	"crypto"
	"crypto/sha256"
	"crypto/tls"
	"crypto/x509"

	"github.com/wneessen/go-mail/internal/pkcs7"
)

// C08: the bytes handed to the signer must be exactly the first body part of
// the multipart/signed entity as emitted (RFC 1847), for every message shape.

// hxSigned records what the engine-side model of the PKCS#7 layer was asked to sign.
var hxSigned [][]byte

// The PKCS#7 layer is replaced inside the engine (override table): ASN.1, RSA
// and ECDSA are outside the reach of the solver. (*SMIME).signMessage itself
// runs for real; the model records the bytes it asks to have digested.
func hxP7NewSignedData(data []byte) (*pkcs7.SignedData, error) {
	hxSigned = append(hxSigned, append([]byte{}, data...))
	return new(pkcs7.SignedData), nil
}

func hxP7AddSigner(sd *pkcs7.SignedData, cert *x509.Certificate, pkey crypto.PrivateKey, config pkcs7.SignerInfoConfig) error {
	return nil
}
func hxP7AddCertificate(sd *pkcs7.SignedData, cert *x509.Certificate) {}
func hxP7Detach(sd *pkcs7.SignedData)                                 {}
func hxP7Finish(sd *pkcs7.SignedData) ([]byte, error) {
	return []byte("SIGNATURE-BLOB-" + string(rune('0'+len(hxSigned)))), nil
}

func hxSetupSigning(m *Msg) bool {
	if svIsSymbolic() {
		// the signer is a model: any non-nil key material will do
		if err := m.SignWithKeypair(struct{}{}, &x509.Certificate{}, nil); err != nil {
			svAssert(false, "setup-sign")
			return false
		}
		return true
	}
	kp, err := tls.LoadX509KeyPair("testdata/dummy-chain-cert-rsa.pem", "testdata/dummy-child-key-rsa.pem")
	if err != nil {
		panic(err)
	}
	if err := m.SignWithTLSCertificate(&kp); err != nil {
		panic(err)
	}
	return true
}

// hxCheckSigned verifies one rendering of a signed message. idx is the number
// of the render (which recorded signer input belongs to it).
func hxCheckSigned(out []byte, idx int, tag string) {
	root := hxParseEntity(out, 0)
	svAssert(root.bad == "", tag+"malformed:"+root.bad)
	if root.bad != "" {
		return
	}
	svAssert(root.mtype == "multipart/signed", tag+"not-multipart-signed")
	proto, _ := hxParam(root.params, "protocol")
	svAssert(string(proto) == "application/pkcs7-signature", tag+"protocol-param")
	mic, _ := hxParam(root.params, "micalg")
	svAssert(string(mic) == "sha-256", tag+"micalg-param")
	svAssert(len(root.kids) == 2, tag+"signed-part-count")
	if len(root.kids) != 2 {
		return
	}
	first := root.kids[0].raw
	sig := root.kids[1]
	svAssert(len(sig.mtype) >= 27 && sig.mtype[:27] == "application/pkcs7-signature", tag+"signature-part-type")
	if svIsSymbolic() {
		svAssert(idx < len(hxSigned), tag+"signer-not-called")
		if idx >= len(hxSigned) {
			return
		}
		signed := hxSigned[idx]
		svAssert(len(signed) == len(first), tag+"signed-bytes-length")
		svAssert(hxEqBytes(signed, first), tag+"signed-bytes-differ")
		return
	}
	// native replay: the real signer ran; the SHA-256 of the emitted first part
	// must be the messageDigest attribute inside the PKCS#7 blob
	der, ok := hxB64Decode(sig.body)
	if !ok {
		svAssert(false, tag+"signature-undecodable")
		return
	}
	sum := sha256.Sum256(first)
	if !hxContains(der, sum[:]) {
		// report under the label the engine uses for this defect class
		svAssert(false, tag+"signed-bytes-length")
		svAssert(false, tag+"signed-bytes-differ")
	}
}

func HarnessC08Sign() {
	hxSigned = nil
	p := svPick("parts", svParam("parts", 2)+1)
	e := svPick("embeds", svParam("embeds", 1)+1)
	a := svPick("atts", svParam("atts", 1)+1)
	menc := hxEnc(svPick("menc", 3))
	variant := svPick("variant", svParam("variants", 11))
	n := svParam("n", 2)
	m := NewMsg(WithEncoding(menc))
	_ = m.From("a@b.c")
	_ = m.To("d@e.f")
	m.Subject("signed")
	m.SetDateWithValue(hxFixedTime)
	m.SetMessageIDWithValue("fixed.id@example.com")
	vname := "plain"
	switch variant {
	case 1:
		vname = "ignored-invalid-to"
		m.ToIgnoreInvalid("x")
	case 2:
		vname = "preformatted-multiline"
		m.SetGenHeaderPreformatted(Header("X-Pre"), "line one\r\n line two")
	case 3:
		vname = "two-preformatted"
		svNondetMapOrder("go-mail.Header]string", 3)
		m.SetGenHeaderPreformatted(Header("X-Pre-A"), "a")
		m.SetGenHeaderPreformatted(Header("X-Pre-B"), "b")
	case 4:
		vname = "folded-subject"
		m.Subject("a subject that is long enough to be folded onto a second line by the header writer, twice even, so it goes on")
	case 5:
		vname = "empty-genheader"
		m.SetGenHeader(Header("X-Empty"))
	case 6:
		vname = "cc-ignored-invalid"
		m.CcIgnoreInvalid("not an address")
	case 7:
		vname = "after-WriteToSkipMiddleware"
	case 10:
		vname = "long-file-names"
	case 9:
		vname = "preformatted-tab-folded"
		m.SetGenHeaderPreformatted(Header("X-Pre"), "line one\r\n\tline two\r\n\tline three")
	case 8:
		// a caller-chosen boundary is documented to work only for messages with a
		// single multipart level (the signed wrapper does not count: it must still
		// get a boundary of its own)
		vname = "custom-boundary"
		levels := 0
		if a > 0 {
			levels++
		}
		if e > 0 {
			levels++
		}
		if p > 1 {
			levels++
		}
		if levels > 1 {
			return
		}
		m.SetBoundary("caller-chosen-boundary")
	}
	content := append([]byte("signed body "), svBytes("c", n)...)
	// how the content ends: one line end, a trailing empty line, no line end
	tail := 0
	if variant == 0 {
		tail = svPick("content-tail", 3)
	}
	content = append(content, []byte([]string{"\r\n", "\r\n\r\n", ""}[tail])...)
	if menc == EncodingQP {
		hxAssumeText(content)
	}
	desc := svPick("desc", 3) // 0 none, 1 ASCII, 2 needs RFC 2047 encoding
	for i := 0; i < p; i++ {
		var opts []PartOption
		if desc == 1 && i == 0 {
			opts = append(opts, WithPartContentDescription("described part"))
		}
		if desc == 2 && i == 0 {
			opts = append(opts, WithPartContentDescription("Übersicht für März"))
		}
		if i == 0 {
			m.SetBodyString(TypeTextPlain, string(content), opts...)
		} else {
			m.AddAlternativeString(hxPartType[i], hxPartText[i], opts...)
		}
	}
	for i := 0; i < e; i++ {
		ename := "emb.png"
		if variant == 10 {
			ename = "an-embedded-image-with-a-file-name-long-enough-to-need-folding-0123456789.png"
		}
		_ = m.EmbedReader(ename, &hxRd{data: []byte(hxFileData[0])})
	}
	for i := 0; i < a; i++ {
		aname := "att.txt"
		if variant == 10 {
			aname = "an-attachment-with-a-file-name-long-enough-to-need-folding-0123456789.txt"
		}
		_ = m.AttachReader(aname, &hxRd{data: []byte(hxFileData[1])})
	}
	if p+e+a == 0 {
		return
	}
	if !hxSetupSigning(m) {
		return
	}
	tag := "[" + vname + "] "
	if p == 0 {
		tag = "[" + vname + ", no body part] "
	}
	if variant == 7 {
		// another public render entry point used before WriteTo
		_, _ = m.WriteToSkipMiddleware(&hxRecW{}, MiddlewareType("none"))
		hxSigned = nil
	}
	w1 := &hxRecW{}
	if _, err := m.WriteTo(w1); err != nil {
		svAssert(false, tag+"render-error")
		return
	}
	svReach("signed-render")
	hxCheckSigned(w1.buf, 0, tag)
	w2 := &hxRecW{}
	if _, err := m.WriteTo(w2); err != nil {
		svAssert(false, tag+"second-render-error")
		return
	}
	hxCheckSigned(w2.buf, 1, tag+"second: ")
}

// Kernel lemma: writeHeader's return value equals the number of CRLF
// terminated lines it wrote, for 0..2 short symbolic values.
func HarnessC08HeaderCount() {
	nv := svPick("values", 3)
	n := svParam("n", 3)
	var vals []string
	for i := 0; i < nv; i++ {
		b := svBytes("v", n)
		for _, c := range b {
			svAssume(c >= 0x20)
			svAssume(c <= 0x7e)
		}
		vals = append(vals, string(b))
	}
	klen := hxKeyLens[svPick("klen", len(hxKeyLens))]
	key := make([]byte, klen)
	for i := range key {
		key[i] = 'K'
	}
	w := &hxRecW{}
	mw := &msgWriter{writer: w}
	lines := mw.writeHeader(Header(string(key)), vals...)
	cnt := 0
	for i := 0; i+1 < len(w.buf); i++ {
		if w.buf[i] == '\r' && w.buf[i+1] == '\n' {
			cnt++
		}
	}
	if nv == 0 {
		svReach("no-values")
	}
	svAssert(lines == cnt, "line-count")
}
