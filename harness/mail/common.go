package PKGNAME

// Shared harness support for package mail.

type hxRecW struct{ buf []byte }

func (w *hxRecW) Write(p []byte) (int, error) { w.buf = append(w.buf, p...); return len(p), nil }
