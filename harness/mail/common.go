package PKGNAME

// Shared harness support for package mail.

import (
	"io"
	"time"
)

type hxRecW struct{ buf []byte }

func (w *hxRecW) Write(p []byte) (int, error) { w.buf = append(w.buf, p...); return len(p), nil }

// hxRepanic lets engine/replay control panics pass through a recover().
func hxIsStop(r any) bool {
	_, ok := r.(svStopT)
	return ok
}

type hxErr struct{ s string }

func (e *hxErr) Error() string { return e.s }

var hxSinkErr = &hxErr{"sink failed"}
var hxProdErr = &hxErr{"producer failed"}

// What a failing producer returns is the caller's business: any error value
// counts, also the io sentinel errors and errors that wrap them.
var hxProdErrKind int

type hxWrapErr struct{ inner error }

func (e *hxWrapErr) Error() string { return "producer: " + e.inner.Error() }
func (e *hxWrapErr) Unwrap() error { return e.inner }

var hxProdErrNames = []string{"custom error", "io.EOF", "io.ErrUnexpectedEOF", "error wrapping io.EOF"}

func hxProdFail() error {
	switch hxProdErrKind {
	case 1:
		return io.EOF
	case 2:
		return io.ErrUnexpectedEOF
	case 3:
		return &hxWrapErr{io.EOF}
	}
	return hxProdErr
}

// hxFailW accepts bytes up to offset k and fails from then on. It only
// counts, so k can stay symbolic.
type hxFailW struct {
	k      int
	acc    int
	failed bool
	calls  int
}

func (w *hxFailW) Write(p []byte) (int, error) {
	w.calls++
	if w.failed {
		return 0, hxSinkErr
	}
	room := w.k - w.acc
	if len(p) <= room {
		w.acc += len(p)
		return len(p), nil
	}
	w.failed = true
	w.acc += room
	return room, hxSinkErr
}

func hxEnc(i int) Encoding {
	switch i {
	case 0:
		return EncodingQP
	case 1:
		return EncodingB64
	case 3:
		return EncodingUSASCII // "7bit": content is sent as it is, like 8bit
	}
	return NoEncoding
}

var hxFixedTime = time.Date(2024, 5, 6, 7, 8, 9, 0, time.UTC)

type hxRd struct {
	data []byte
	off  int
}

func (r *hxRd) Read(p []byte) (int, error) {
	if r.off >= len(r.data) {
		return 0, io.EOF
	}
	n := copy(p, r.data[r.off:])
	r.off += n
	return n, nil
}

var hxPartText = []string{"plain text body = one\r\n.dot line\r\n", "<p>html body</p>\r\n", "third alternative\r\n"}
var hxPartType = []ContentType{TypeTextPlain, TypeTextHTML, TypeTextPlain}
var hxFileData = []string{"embed-data-0 \x00\x01\xff", "second file content\r\n"}

// hxBuildShape assembles a message through the public builder API:
// parts body parts (first via SetBodyString, rest as alternatives), embeds
// and attachments read from in-memory readers.
func hxBuildShape(parts, embeds, atts int, msgEnc Encoding, fileEnc Encoding) *Msg {
	m := NewMsg(WithEncoding(msgEnc))
	if err := m.From("Al Ice <a@b.c>"); err != nil {
		svAssert(false, "setup-from")
	}
	if err := m.To("d@e.f"); err != nil {
		svAssert(false, "setup-to")
	}
	m.Subject("shape test")
	m.SetDateWithValue(hxFixedTime)
	m.SetMessageIDWithValue("fixed.id@example.com")
	for i := 0; i < parts; i++ {
		if i == 0 {
			m.SetBodyString(hxPartType[i], hxPartText[i])
		} else {
			m.AddAlternativeString(hxPartType[i], hxPartText[i])
		}
	}
	for i := 0; i < embeds; i++ {
		name := "emb0.png"
		if i == 1 {
			name = "emb1.txt"
		}
		if err := m.EmbedReader(name, &hxRd{data: []byte(hxFileData[i])}, WithFileEncoding(fileEnc)); err != nil {
			svAssert(false, "setup-embed")
		}
	}
	for i := 0; i < atts; i++ {
		name := "att0.txt"
		if i == 1 {
			name = "att1.bin"
		}
		if err := m.AttachReader(name, &hxRd{data: []byte(hxFileData[i])}, WithFileEncoding(fileEnc)); err != nil {
			svAssert(false, "setup-attach")
		}
	}
	return m
}

// hxNormWS collapses runs of blanks into one blank and trims both ends.
func hxNormWS(b []byte) []byte {
	var r []byte
	pend := false
	for _, c := range b {
		if c == ' ' || c == '\t' {
			pend = true
			continue
		}
		if pend && len(r) > 0 {
			r = append(r, ' ')
		}
		pend = false
		r = append(r, c)
	}
	return r
}

func hxEqBytes(a, b []byte) bool {
	if len(a) != len(b) {
		return false
	}
	var d byte
	for i := range a {
		d |= a[i] ^ b[i]
	}
	return d == 0
}


func hxContains(hay, needle []byte) bool {
	for i := 0; i+len(needle) <= len(hay); i++ {
		if hxEqBytes(hay[i:i+len(needle)], needle) {
			return true
		}
	}
	return false
}

