package PKGNAME

import "io"

// hxRS8 is a caller's io.ReadSeeker (position shared across renders).
type hxRS8 struct {
	data []byte
	off  int
}

func (r *hxRS8) Read(p []byte) (int, error) {
	if r.off >= len(r.data) {
		return 0, io.EOF
	}
	n := copy(p, r.data[r.off:])
	r.off += n
	return n, nil
}

func (r *hxRS8) Seek(offset int64, whence int) (int64, error) {
	switch whence {
	case io.SeekStart:
		r.off = int(offset)
	case io.SeekCurrent:
		r.off += int(offset)
	default:
		r.off = len(r.data) + int(offset)
	}
	return int64(r.off), nil
}

// C08 after an aborted transfer: a signed message is rendered into a sink that
// fails at a symbolic byte offset (connection lost mid-DATA), then rendered
// again twice; each complete rendering must be signed over exactly the entity
// it carries. Files come from io.Reader / io.ReadSeeker sources with base64,
// 8bit or 7bit transfer encoding.
func HarnessC08AfterFailure() {
	hxSigned = nil
	p := 1 + svPick("parts", svParam("parts", 2))
	menc := hxEnc(svPick("menc", 3))
	fenc := []Encoding{EncodingB64, NoEncoding, EncodingUSASCII}[svPick("fenc", 3)]
	src := svPick("source", 2)
	m := NewMsg(WithEncoding(menc))
	_ = m.From("a@b.c")
	_ = m.To("d@e.f")
	m.Subject("signed, resent")
	m.SetDateWithValue(hxFixedTime)
	m.SetMessageIDWithValue("fixed.id@example.com")
	for i := 0; i < p; i++ {
		if i == 0 {
			m.SetBodyString(TypeTextPlain, hxPartText[0])
		} else {
			m.AddAlternativeString(hxPartType[i], hxPartText[i])
		}
	}
	data := []byte("first line of the attached file\r\nsecond line of the attached file\r\nthird line\r\n")
	if src == 0 {
		_ = m.AttachReader("att.txt", &hxRd{data: data}, WithFileEncoding(fenc))
	} else {
		m.AttachReadSeeker("att.txt", &hxRS8{data: data}, WithFileEncoding(fenc))
	}
	if !hxSetupSigning(m) {
		return
	}
	tag := "[after-aborted-render] "
	w0 := &hxRecW{}
	if _, err := m.WriteTo(w0); err != nil {
		svAssert(false, tag+"render-error")
		return
	}
	hxCheckSigned(w0.buf, 0, tag+"first: ")
	// the transfer that breaks off
	k := svInt("k")
	svAssume(k >= 0)
	svAssume(k < len(w0.buf))
	fw := &hxFailW{k: k}
	_, ferr := m.WriteTo(fw)
	svAssert(ferr != nil, tag+"failed-render-without-error")
	hxSigned = nil
	svReach("aborted-render")
	w1 := &hxRecW{}
	if _, err := m.WriteTo(w1); err != nil {
		svAssert(false, tag+"render-error-after-failure")
		return
	}
	hxCheckSigned(w1.buf, 0, tag+"retry: ")
	w2 := &hxRecW{}
	if _, err := m.WriteTo(w2); err != nil {
		svAssert(false, tag+"render-error-after-failure")
		return
	}
	hxCheckSigned(w2.buf, 1, tag+"second retry: ")
}
