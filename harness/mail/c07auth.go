package PKGNAME

import "github.com/wneessen/go-mail/smtp"

type hxCustomAuth struct{ pass string }

func (a *hxCustomAuth) Start(server *smtp.ServerInfo) (string, []byte, error) {
	return "PLAIN", []byte("\x00user\x00" + a.pass), nil
}
func (a *hxCustomAuth) Next(fromServer []byte, more bool) ([]byte, error) { return nil, nil }

// authTypeAutoDiscover never selects a password-revealing mechanism on an
// unencrypted connection, for every advertised mechanism list.
func HarnessC07AutoDiscover() {
	names := []string{"PLAIN", "LOGIN", "CRAM-MD5", "XOAUTH2", "SCRAM-SHA-1", "SCRAM-SHA-256", "SCRAM-SHA-1-PLUS", "SCRAM-SHA-256-PLUS", "GSSAPI"}
	supported := ""
	for _, n := range names {
		if svPick("adv-"+n, 2) == 1 {
			if supported != "" {
				supported += " "
			}
			supported += n
		}
	}
	enc := svPick("encrypted", 2) == 1
	c := &Client{host: hxHosts[svPick("host", len(hxHosts))]}
	got, err := c.authTypeAutoDiscover(supported, enc)
	if err != nil {
		svReach("nothing-selected")
		return
	}
	svReach("selected")
	if !enc {
		svAssert(got != SMTPAuthPlain && got != SMTPAuthLogin && got != SMTPAuthXOAUTH2 && got != SMTPAuthPlainNoEnc && got != SMTPAuthLoginNoEnc,
			"C07 auto-discovery selected a password-revealing mechanism on an unencrypted connection")
		svAssert(got != SMTPAuthSCRAMSHA1PLUS && got != SMTPAuthSCRAMSHA256PLUS, "C07 auto-discovery selected a channel-binding mechanism without TLS")
	}
	// the selected mechanism must have been advertised
	found := false
	for i := 0; i+len(string(got)) <= len(supported); i++ {
		if supported[i:i+len(string(got))] == string(got) {
			found = true
		}
	}
	svAssert(found, "C07 auto-discovery selected a mechanism that was not advertised")
}
