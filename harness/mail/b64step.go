package PKGNAME

// One inductive step of base64LineBreaker.Write from an arbitrary valid state
// (0 <= used < 76, arbitrary buffer) with arbitrary data of length n <= maxn.
func HarnessB64Step() {
	maxn := svParam("maxn", 40)
	used := svInt("used")
	n := svInt("n")
	svAssume(used >= 0)
	svAssume(used < MaxBodyLength)
	svAssume(n >= 0)
	svAssume(n <= maxn)
	w := &hxRecW{}
	l := &base64LineBreaker{out: w}
	for i := 0; i < MaxBodyLength; i++ {
		l.line[i] = svByte("line")
	}
	var pre [MaxBodyLength]byte = l.line
	l.used = used
	data := svBytes("data", n)
	k, err := l.Write(data)
	svAssert(err == nil, "err")
	svAssert(k == n, "count")
	svAssert(l.used >= 0, "used-range")
	svAssert(l.used < MaxBodyLength, "used-range")
	total := used + n
	full := total / MaxBodyLength
	if full > 0 {
		svReach("full-line")
	}
	if total%MaxBodyLength != 0 {
		svReach("buffered")
	}
	svAssert(l.used == total-full*MaxBodyLength, "used-value")
	svAssert(len(w.buf) == full*(MaxBodyLength+2), "out-len")
	at := func(j int) byte {
		if j < used {
			return pre[j]
		}
		return data[j-used]
	}
	var diff byte
	pos := 0
	for ln := 0; ln < full; ln++ {
		for c := 0; c < MaxBodyLength; c++ {
			diff |= w.buf[pos] ^ at(ln*MaxBodyLength+c)
			pos++
		}
		diff |= w.buf[pos] ^ '\r'
		diff |= w.buf[pos+1] ^ '\n'
		pos += 2
	}
	for c := 0; c < l.used; c++ {
		diff |= l.line[c] ^ at(full*MaxBodyLength+c)
	}
	svAssert(diff == 0, "content")
}
