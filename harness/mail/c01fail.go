package PKGNAME

import "io"

// C01 after an aborted transfer: a message with a sizeable file (from an
// io.Reader or an io.ReadSeeker) is rendered completely, then into a sink that
// fails at a symbolic byte offset, then again twice; every complete rendering
// carries exactly the supplied content.
func HarnessC01AfterFailure() {
	menc := hxEnc(svPick("menc", 3))
	fenc := []Encoding{EncodingB64, NoEncoding}[svPick("fenc", 2)]
	src := svPick("source", 2)
	flen := svParam("flen", 1700)
	data := make([]byte, flen)
	for i := range data {
		data[i] = byte(i*131 + i/251 + 7)
		if fenc != EncodingB64 {
			// 8bit files: line structured text
			data[i] = byte('a' + (i*7)%26)
			if i%61 == 59 {
				data[i] = '\r'
			}
			if i%61 == 60 {
				data[i] = '\n'
			}
		}
	}
	specs := []hxLeafSpec{
		{kind: 0, mtype: "text/plain", enc: menc, content: []byte(hxPartText[0])},
		{kind: 2, mtype: "application/octet-stream", name: "file.bin", enc: fenc, content: data},
	}
	var m *Msg
	if src == 0 {
		m = hxBuildC01(specs, menc, 0, false, "")
	} else {
		m = hxBuildC01(specs[:1], menc, 0, false, "")
		m.AttachReadSeeker("file.bin", &hxRS1{data: data}, WithFileEncoding(fenc), WithFileContentType(ContentType("application/octet-stream")))
	}
	hxC01Tag = "first render: "
	w0 := &hxRecW{}
	if _, err := m.WriteTo(w0); err != nil {
		svAssert(false, "render-error")
		return
	}
	hxCheckTree(hxParseEntity(w0.buf, 0), specs)
	k := svInt("k")
	svAssume(k >= 0)
	svAssume(k < len(w0.buf))
	fw := &hxFailW{k: k}
	_, ferr := m.WriteTo(fw)
	svAssert(ferr != nil, "failed-render-without-error")
	svReach("aborted-render")
	hxC01Tag = "render after an aborted one: "
	hxCheckTree(hxRenderParse(m), specs)
	hxC01Tag = "second render after an aborted one: "
	hxCheckTree(hxRenderParse(m), specs)
}

type hxRS1 struct {
	data []byte
	off  int
}

func (r *hxRS1) Read(p []byte) (int, error) {
	if r.off >= len(r.data) {
		return 0, io.EOF
	}
	n := copy(p, r.data[r.off:])
	r.off += n
	return n, nil
}

func (r *hxRS1) Seek(offset int64, whence int) (int64, error) {
	switch whence {
	case 0:
		r.off = int(offset)
	case 1:
		r.off += int(offset)
	default:
		r.off = len(r.data) + int(offset)
	}
	return int64(r.off), nil
}
