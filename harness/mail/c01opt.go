package PKGNAME

import "io"

// L4: builder entry points and per-part / per-message options: body and
// alternative through the Writer variants, WithPartEncoding, WithPartCharset,
// WithCharset, and files attached through Reader / ReadSeeker / fs.FS.
func HarnessC01Options() {
	menc := hxEnc(svPick("menc", 3))
	bodyVia := svPick("body-via", 2)   // 0 SetBodyString, 1 SetBodyWriter
	altVia := svPick("alt-via", 3)     // 0 none, 1 AddAlternativeString, 2 AddAlternativeWriter
	penc := svPick("part-encoding", 4) // 0 inherit, 1..3 WithPartEncoding on the last body part
	pcs := svPick("part-charset", 3)   // 0 inherit, 1 WithPartCharset(ISO-8859-1), 2 WithPartCharset(UTF-8) on the first part
	mcs := svPick("msg-charset", 2)    // 0 default, 1 WithCharset(ISO-8859-15)
	fileVia := svPick("file-via", 5)   // 0 none, 1 AttachReader, 2 AttachReadSeeker, 3 AttachFromIOFS, 4 EmbedFromIOFS
	body := append(append([]byte("body "), svBytes("c", svParam("n", 1))...), '\r', '\n')
	alt := []byte("<p>alternative</p>\r\n")
	mopts := []MsgOption{WithEncoding(menc)}
	msgCS := ""
	if mcs == 1 {
		mopts = append(mopts, WithCharset(CharsetISO885915))
		msgCS = "iso-8859-15"
	}
	m := NewMsg(mopts...)
	_ = m.From("a@b.c")
	_ = m.To("d@e.f")
	m.Subject("c01 options")
	m.SetDateWithValue(hxFixedTime)
	m.SetMessageIDWithValue("fixed.id@example.com")
	encOf := func(isLast bool) Encoding {
		if isLast && penc > 0 {
			return hxEnc(penc - 1)
		}
		return menc
	}
	optsOf := func(isFirst, isLast bool) []PartOption {
		var o []PartOption
		if isFirst && pcs == 1 {
			o = append(o, WithPartCharset(CharsetISO88591))
		}
		if isFirst && pcs == 2 {
			o = append(o, WithPartCharset(CharsetUTF8))
		}
		if isLast && penc > 0 {
			o = append(o, WithPartEncoding(hxEnc(penc-1)))
		}
		return o
	}
	csOf := func(isFirst bool) string {
		if isFirst && pcs == 1 {
			return "iso-8859-1"
		}
		if isFirst && pcs == 2 {
			return "utf-8"
		}
		return msgCS
	}
	var specs []hxLeafSpec
	lastIsBody := altVia == 0
	if bodyVia == 0 {
		m.SetBodyString(TypeTextPlain, string(body), optsOf(true, lastIsBody)...)
	} else {
		m.SetBodyWriter(TypeTextPlain, func(w io.Writer) (int64, error) {
			k, err := w.Write(body)
			return int64(k), err
		}, optsOf(true, lastIsBody)...)
	}
	specs = append(specs, hxLeafSpec{kind: 0, mtype: "text/plain", enc: encOf(lastIsBody), content: body, charset: csOf(true)})
	switch altVia {
	case 1:
		m.AddAlternativeString(TypeTextHTML, string(alt), optsOf(false, true)...)
	case 2:
		m.AddAlternativeWriter(TypeTextHTML, func(w io.Writer) (int64, error) {
			k, err := w.Write(alt)
			return int64(k), err
		}, optsOf(false, true)...)
	}
	if altVia > 0 {
		specs = append(specs, hxLeafSpec{kind: 0, mtype: "text/html", enc: encOf(true), content: alt, charset: csOf(false)})
	}
	for _, sp := range specs {
		if sp.enc == EncodingQP {
			hxAssumeText(sp.content)
		}
	}
	fdata := []byte("file \x00\x01\xfe data\r\n.\r\n")
	fsys := &hxFS{files: map[string][]byte{"dir/fs.bin": fdata}}
	switch fileVia {
	case 1:
		_ = m.AttachReader("file.bin", &hxRd{data: fdata})
		specs = append(specs, hxLeafSpec{kind: 2, mtype: "application/octet-stream", name: "file.bin", enc: EncodingB64, content: fdata})
	case 2:
		m.AttachReadSeeker("file.bin", &hxSeeker{data: fdata})
		specs = append(specs, hxLeafSpec{kind: 2, mtype: "application/octet-stream", name: "file.bin", enc: EncodingB64, content: fdata})
	case 3:
		if err := m.AttachFromIOFS("dir/fs.bin", fsys); err != nil {
			svAssert(false, "setup-iofs")
			return
		}
		specs = append(specs, hxLeafSpec{kind: 2, mtype: "application/octet-stream", name: "fs.bin", enc: EncodingB64, content: fdata})
	case 4:
		if err := m.EmbedFromIOFS("dir/fs.bin", fsys); err != nil {
			svAssert(false, "setup-iofs")
			return
		}
		specs = append(specs, hxLeafSpec{kind: 1, mtype: "application/octet-stream", name: "fs.bin", enc: EncodingB64, content: fdata})
	}
	root := hxRenderParse(m)
	svReach("rendered")
	hxCheckTree(root, specs)
}
