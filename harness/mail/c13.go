package PKGNAME

import (
	"context"
	"sync"
)

// C13: the sequential lock discipline that makes concurrent use of one
// Client safe (interleavings themselves are not explored).

func hxMutexHeld(m *sync.Mutex) bool {
	if svIsSymbolic() {
		return svHeld(m) == 2
	}
	if m.TryLock() {
		m.Unlock()
		return false
	}
	return true
}

func HarnessC13Locks() {
	nm := 1 + svPick("msgs", svParam("msgs", 2))
	nr := 1 + svPick("rcpts", svParam("rcpts", 1))
	// with authentication configured every dial builds and drives an Auth object
	authMode := svPick("auth", svParam("auths", 2)) // 0 none, 1 LOGIN
	caps := []string{"8BITMIME", "DSN"}
	copts := []Option{WithDSN()}
	if authMode == 1 {
		caps = append(caps, "AUTH PLAIN LOGIN")
		copts = append(copts, WithSMTPAuth(SMTPAuthLoginNoEnc), WithUsername("user"), WithPassword("secret"))
	}
	s := hxNewSrv(caps)
	s.authFn = hxAuthSimple
	s.maxDev = svParam("maxdev", 1)
	c := hxNewClient(s, copts...)
	if err := c.DialWithContext(context.Background()); err != nil {
		svReach("dial-failed")
		svAssert(svLockErrors() == "", "C13 lock misuse during dial: "+svLockErrors())
		svAssert(svLocksHeld() == 0, "C13 a mutex is still held after DialWithContext returned")
		return
	}
	svAssert(svLocksHeld() == 0, "C13 a mutex is still held after DialWithContext returned")
	// (1) every byte on the shared connection moves while sendMutex is held
	s.probe = func() bool { return hxMutexHeld(&c.sendMutex) }
	var msgs []*Msg
	fails := 0
	for i := 0; i < nm; i++ {
		f := 0
		if svParam("producers", 1) == 1 {
			f = svPick("producer-fault", 3)
		}
		if f == 2 {
			fails++
		}
		msgs = append(msgs, hxTestMsg(i, nr, f, EncodingQP))
	}
	// the Client, its smtp.Client and every other object the Client keeps a
	// pointer to (an Auth object kept on the Client is shared by every later dial)
	svWatchDeep(c)
	svWatch(c.smtpClient)
	svLogStart(1)
	_ = c.Send(msgs...)
	svLogStop()
	s.probe = nil
	svReach("sent")
	// (2) balanced locking on every path, including error returns
	svAssert(svLockErrors() == "", "C13 lock misuse during Send: "+svLockErrors())
	svAssert(svLocksHeld() == 0, "C13 a mutex is still held after Send returned")
	// (4) lockset check Send || Send on the shared Client and smtp.Client
	if r := svRaceReport(1, 1); r != "" {
		svAssert(false, "C13 unsynchronised access in Send || Send to "+r)
	}
	// (3) DialAndSend works on a private connection only
	s2 := hxNewSrv(caps)
	s2.authFn = hxAuthSimple
	s2.onlyOK = true
	before := len(s.cmds) + s.closeCalls
	c.dialContextFunc = hxDialFunc(s2)
	if svParam("routes", 1) > 1 && svPick("dial-and-send-route", 2) == 1 {
		// the configured port is closed, the fallback port answers
		c.SetTLSPortPolicy(TLSOpportunistic)
		s2.refuseDials = 1
		svReach("fallback-route")
	}
	svLogStart(2)
	err := c.DialAndSend(hxTestMsg(2, 1, 0, EncodingQP))
	svLogStop()
	svAssert(len(s.cmds)+s.closeCalls == before, "C13 DialAndSend touched the shared connection")
	// what was delivered is the message's own content (memory shared through a
	// sync.Pool must not be used after it was handed back: the engine overwrites
	// the byte slices of an object at Put)
	for _, cm := range append(append([]hxCommit{}, s.commits...), s2.commits...) {
		svAssert(hxContains(cm.data, []byte("body of message ")) && hxContains(cm.data, []byte("last line\r\n")),
			"C13 delivered content is not the message's own content (memory of a pooled object used after Put)")
	}
	svAssert(svLockErrors() == "", "C13 lock misuse during DialAndSend: "+svLockErrors())
	svAssert(svLocksHeld() == 0, "C13 a mutex is still held after DialAndSend returned")
	if err == nil {
		svReach("dial-and-send-ok")
		svAssert(len(s2.commits) == 1, "C13 DialAndSend did not deliver on its own connection")
	}
	if r := svRaceReport(1, 2); r != "" {
		svAssert(false, "C13 unsynchronised access in Send || DialAndSend to "+r)
	}
	if r := svRaceReport(2, 2); r != "" {
		svAssert(false, "C13 unsynchronised access in DialAndSend || DialAndSend to "+r)
	}
	// (5) no lock-order deadlock between the concurrent operations
	for _, pr := range [][2]int{{1, 1}, {1, 2}, {2, 2}} {
		if r := svLockOrderReport(pr[0], pr[1]); r != "" {
			svAssert(false, "C13 deadlock between "+[]string{"", "Send", "DialAndSend"}[pr[0]]+" and "+[]string{"", "Send", "DialAndSend"}[pr[1]]+": "+r)
		}
	}
}
