package PKGNAME

// C12 with S/MIME signing: the message is rendered twice inside WriteTo (the
// pre-render that gets signed and the final render); a producer that fails must
// still surface as an error, and the count must match what the sink accepted.
func HarnessC12ProducerSigned() {
	hxC12Signer = hxSetupSigning
	HarnessC12Producer()
}

// the same for failing sinks
func HarnessC12SinkSigned() {
	hxC12Signer = hxSetupSigning
	HarnessC12Sink()
}
