package PKGNAME

// C01: the rendered MIME structure carries exactly the content supplied.

type hxLeafSpec struct {
	kind    int // 0 body part, 1 embed, 2 attachment
	mtype   string
	name    string
	enc     Encoding
	content []byte
	charset string // expected charset parameter of a body part ("" = utf-8)
}

func hxCTEName(e Encoding) string { return string(e) }

// hxCanonText maps LF not preceded by CR to CRLF (quoted-printable text is
// compared modulo this canonicalisation).
func hxCanonText(b []byte) []byte {
	var r []byte
	for i, c := range b {
		if c == '\n' && (i == 0 || b[i-1] != '\r') {
			r = append(r, '\r')
		}
		r = append(r, c)
	}
	return r
}

// hxAssumeText states the precondition of quoted-printable text: no CR that
// is not followed by LF.
func hxAssumeText(b []byte) {
	for i, c := range b {
		if c == '\r' {
			if i+1 >= len(b) {
				svAssume(false)
			}
			svAssume(b[i+1] == '\n')
		}
	}
}

func hxDecodeLeaf(e *hxEnt) ([]byte, bool) {
	switch e.cte {
	case "quoted-printable":
		return hxQPDecode(e.body)
	case "base64":
		return hxB64Decode(e.body)
	case "8bit", "7bit", "":
		return e.body, true
	}
	return nil, false
}

// hxC01Tag prefixes the labels of the tree assertions (e.g. "second render: ").
var hxC01Tag string

// hxC01Pre marks the labels of a configuration (e.g. a caller-chosen boundary).
var hxC01Pre string

func hxA(c bool, label string) { svAssert(c, hxC01Pre+hxC01Tag+label) }

// hxCheckLeaf compares one parsed leaf with what the caller supplied.
func hxCheckLeaf(e *hxEnt, s hxLeafSpec) {
	hxA(e.mtype == s.mtype, "leaf-media-type")
	hxA(e.cte == hxCTEName(s.enc), "leaf-transfer-encoding")
	switch s.kind {
	case 0:
		cs, ok := hxParam(e.params, "charset")
		hxA(ok, "leaf-charset-missing")
		wantCS := "utf-8"
		if s.charset != "" {
			wantCS = s.charset
		}
		hxA(hxLower(cs) == wantCS, "leaf-charset")
		hxA(e.disp == "", "part-has-disposition")
	case 1, 2:
		want := "inline"
		if s.kind == 2 {
			want = "attachment"
		}
		hxA(e.disp == want, "leaf-disposition")
		fn, ok := hxParam(e.dparams, "filename")
		hxA(ok, "leaf-filename-missing")
		dfn, ok2 := hxDecodeWords(fn)
		hxA(ok2, "leaf-filename-undecodable")
		hxA(string(dfn) == s.name, "leaf-filename")
		nm, ok3 := hxParam(e.params, "name")
		hxA(ok3, "leaf-name-missing")
		dnm, ok4 := hxDecodeWords(nm)
		hxA(ok4, "leaf-name-undecodable")
		hxA(string(dnm) == s.name, "leaf-name")
		if s.kind == 1 {
			_, n := hxGet(e.hdrs, "content-id")
			hxA(n == 1, "embed-content-id")
		}
	}
	dec, ok := hxDecodeLeaf(e)
	hxA(ok, "leaf-undecodable")
	want := s.content
	if s.enc == EncodingQP {
		want = hxCanonText(want)
	}
	hxA(len(dec) == len(want), "leaf-content-length")
	hxA(hxEqBytes(dec, want), "leaf-content")
}

// hxCheckNesting checks mixed > related > alternative nesting of the tree
// against the numbers of live parts, embeds and attachments.
func hxCheckNesting(root *hxEnt, p, e, a int) {
	// collect leaves with their container chain
	type lc struct {
		leaf  *hxEnt
		chain []*hxEnt
	}
	var leaves []lc
	var walk func(n *hxEnt, chain []*hxEnt)
	walk = func(n *hxEnt, chain []*hxEnt) {
		if len(n.mtype) >= 10 && n.mtype[:10] == "multipart/" {
			ch := append(append([]*hxEnt{}, chain...), n)
			for _, k := range n.kids {
				walk(k, ch)
			}
			return
		}
		leaves = append(leaves, lc{n, chain})
	}
	walk(root, nil)
	rank := func(t string) int {
		switch t {
		case "multipart/mixed":
			return 1
		case "multipart/related":
			return 2
		case "multipart/alternative":
			return 3
		}
		return 0
	}
	for _, l := range leaves {
		last := 0
		for _, c := range l.chain {
			r := rank(c.mtype)
			hxA(r != 0, "unexpected-container-type")
			hxA(r > last, "container-order")
			last = r
		}
	}
	if len(leaves) != p+e+a {
		return // reported as leaf-count by the caller
	}
	parent := func(i int) *hxEnt {
		c := leaves[i].chain
		if len(c) == 0 {
			return nil
		}
		return c[len(c)-1]
	}
	if p > 1 {
		for i := 0; i < p; i++ {
			pp := parent(i)
			hxA(pp != nil && pp.mtype == "multipart/alternative", "alternatives-not-in-alternative")
			hxA(pp == parent(0), "alternatives-split")
		}
		if pp := parent(0); pp != nil {
			hxA(len(pp.kids) == p, "alternative-holds-foreign-parts")
		}
	}
	if e > 0 && (p > 0 || e > 1) {
		for i := p; i < p+e; i++ {
			pp := parent(i)
			hxA(pp != nil && pp.mtype == "multipart/related", "embed-not-in-related")
			hxA(pp == parent(p), "embeds-split")
		}
		// body parts must live inside the same related container
		if rel := parent(p); rel != nil {
			for i := 0; i < p; i++ {
				in := false
				for _, c := range leaves[i].chain {
					in = in || c == rel
				}
				hxA(in, "parts-outside-related")
			}
		}
	}
	if a > 0 && p+e+a > 1 {
		for i := p + e; i < p+e+a; i++ {
			pp := parent(i)
			hxA(pp != nil && pp.mtype == "multipart/mixed", "attachment-not-in-mixed")
			hxA(pp == root, "mixed-not-at-top")
		}
	}
}

func hxReqEnc(actual, requested Encoding) Encoding {
	if requested != "" {
		return requested
	}
	return actual
}

// hxBuildC01 builds the message for a list of leaf specs. delMask marks body
// parts that are added and then deleted.
func hxBuildC01(specs []hxLeafSpec, menc Encoding, delMask int, desc bool, freq Encoding) *Msg {
	m := NewMsg(WithEncoding(menc))
	_ = m.From("a@b.c")
	_ = m.To("d@e.f")
	m.Subject("c01")
	m.SetDateWithValue(hxFixedTime)
	m.SetMessageIDWithValue("fixed.id@example.com")
	np := 0
	for _, s := range specs {
		switch s.kind {
		case 0:
			var opts []PartOption
			if desc && np == 0 {
				opts = append(opts, WithPartContentDescription("first part"))
			}
			if np == 0 {
				m.SetBodyString(ContentType(s.mtype), string(s.content), opts...)
			} else {
				m.AddAlternativeString(ContentType(s.mtype), string(s.content), opts...)
			}
			// optionally a deleted sibling after this part
			if delMask&(1<<uint(np)) != 0 {
				m.AddAlternativeString(TypeTextPlain, "deleted part")
				ps := m.GetParts()
				ps[len(ps)-1].Delete()
			}
			np++
		case 1:
			_ = m.EmbedReader(s.name, &hxRd{data: s.content}, WithFileEncoding(hxReqEnc(s.enc, freq)), WithFileContentType(ContentType(s.mtype)))
		case 2:
			_ = m.AttachReader(s.name, &hxRd{data: s.content}, WithFileEncoding(hxReqEnc(s.enc, freq)), WithFileContentType(ContentType(s.mtype)))
		}
	}
	return m
}

func hxRenderParse(m *Msg) *hxEnt {
	w := &hxRecW{}
	n, err := m.WriteTo(w)
	svAssert(err == nil, "render-error")
	svAssert(int(n) == len(w.buf), "render-count")
	if svParam("debug", 0) == 1 {
		println(string(w.buf))
	}
	root := hxParseEntity(w.buf, 0)
	return root
}

func hxCheckTree(root *hxEnt, specs []hxLeafSpec) {
	hxA(root.bad == "", "malformed:"+root.bad)
	if root.bad != "" {
		return
	}
	leaves := hxLeaves(root, nil)
	hxA(len(leaves) == len(specs), "leaf-count")
	if len(leaves) != len(specs) {
		return
	}
	p, e, a := 0, 0, 0
	for i, s := range specs {
		hxCheckLeaf(leaves[i], s)
		switch s.kind {
		case 0:
			p++
		case 1:
			e++
		default:
			a++
		}
	}
	hxCheckNesting(root, p, e, a)
}

// L1: structure, all shapes, fixed contents.
func HarnessC01Shape() {
	p := svPick("parts", svParam("parts", 3)+1)
	e := svPick("embeds", svParam("embeds", 2)+1)
	a := svPick("atts", svParam("atts", 2)+1)
	menc := hxEnc(svPick("menc", 3))
	freq := hxEnc(svPick("fenc", svParam("fencs", 3))) // requested file encoding
	fenc := freq
	if freq == EncodingQP {
		fenc = EncodingB64 // documented: quoted-printable is ignored for files
	}
	delMask := 0
	if p > 0 && svParam("deleted", 1) == 1 {
		delMask = svPick("del", 2) // a deleted sibling after the first part
	}
	desc := false
	if p > 0 {
		desc = svPick("desc", 2) == 1
	}
	uni := svPick("unicode-name", 2) == 1
	var specs []hxLeafSpec
	for i := 0; i < p; i++ {
		specs = append(specs, hxLeafSpec{kind: 0, mtype: string(hxPartType[i]), enc: menc, content: []byte(hxPartText[i])})
	}
	for i := 0; i < e; i++ {
		name := "emb0.png"
		if i == 1 {
			name = "emb one.gif"
		}
		specs = append(specs, hxLeafSpec{kind: 1, mtype: "image/png", name: name, enc: fenc, content: []byte(hxFileData[i])})
	}
	for i := 0; i < a; i++ {
		name := "att0.txt"
		if i == 1 {
			name = "att1.bin"
		}
		if uni && i == 0 {
			name = "füß.txt"
		}
		specs = append(specs, hxLeafSpec{kind: 2, mtype: "application/octet-stream", name: name, enc: fenc, content: []byte(hxFileData[i])})
	}
	m := hxBuildC01(specs, menc, delMask, desc, freq)
	if svParam("boundary", 0) == 1 && svPick("caller-boundary", 2) == 1 {
		m.SetBoundary("caller_chosen.boundary")
		hxC01Pre = "[caller-chosen boundary] "
	}
	root := hxRenderParse(m)
	if p+e+a == 0 {
		svReach("empty-message")
		return
	}
	if p > 1 {
		svReach("alternative")
	}
	if e > 0 && p > 0 {
		svReach("related")
	}
	if a > 0 && p > 0 {
		svReach("mixed")
	}
	hxC01Tag = ""
	hxCheckTree(root, specs)
	// the same Msg rendered again (boundaries and file headers are cached on
	// the first render) must satisfy the same structure
	hxC01Tag = "second render: "
	root2 := hxRenderParse(m)
	hxCheckTree(root2, specs)
	hxC01Tag = ""
}

var hxShapeSets = [][]int{{0, 2}, {0, 1, 2, 3}, {0}, {2}}

var hxCtxPre = []string{"", "\r\n", "=", ".", "x \r\n--"}
var hxCtxSuf = []string{"", "\r\n", " ", "\n."}

// L2: symbolic content of one leaf inside fixed adversarial contexts.
func HarnessC01Content() {
	n := svParam("n", 2)
	shape := hxShapeSets[svParam("shapeset", 0)][0]
	if ns := len(hxShapeSets[svParam("shapeset", 0)]); ns > 1 {
		shape = hxShapeSets[svParam("shapeset", 0)][svPick("shape", ns)] // 0 single part, 1 alternative, 2 part+attachment, 3 part+embed
	}
	target := 0                  // which leaf carries the symbolic content
	if shape >= 2 {
		target = svPick("target", 2)
	}
	enc := hxEnc(svPick("enc", 3))
	pre := hxCtxPre[svPick("pre", svParam("pres", len(hxCtxPre)))]
	suf := hxCtxSuf[svPick("suf", svParam("sufs", len(hxCtxSuf)))]
	if target == 1 && enc == EncodingQP {
		return // quoted-printable is documented as ignored for files
	}
	if svParam("onlyenc", -1) >= 0 && enc != hxEnc(svParam("onlyenc", -1)) {
		return
	}
	sym := svBytes("c", n)
	content := append(append([]byte(pre), sym...), []byte(suf)...)
	if enc == EncodingQP {
		hxAssumeText(content)
	}
	var specs []hxLeafSpec
	other := []byte("other leaf\r\n")
	mk := func(kind int, idx int, c []byte, e Encoding) hxLeafSpec {
		switch kind {
		case 0:
			return hxLeafSpec{kind: 0, mtype: string(hxPartType[idx]), enc: e, content: c}
		case 1:
			return hxLeafSpec{kind: 1, mtype: "image/png", name: "e.png", enc: e, content: c}
		}
		return hxLeafSpec{kind: 2, mtype: "application/octet-stream", name: "a.bin", enc: e, content: c}
	}
	menc := EncodingQP
	if target == 0 {
		menc = enc
	}
	fenc := EncodingB64
	if target == 1 {
		fenc = enc
	}
	switch shape {
	case 0:
		specs = []hxLeafSpec{mk(0, 0, content, menc)}
	case 1:
		specs = []hxLeafSpec{mk(0, 0, content, menc), mk(0, 1, other, menc)}
	case 2:
		if target == 0 {
			specs = []hxLeafSpec{mk(0, 0, content, menc), mk(2, 0, other, fenc)}
		} else {
			specs = []hxLeafSpec{mk(0, 0, other, menc), mk(2, 0, content, fenc)}
		}
	case 3:
		if target == 0 {
			specs = []hxLeafSpec{mk(0, 0, content, menc), mk(1, 0, other, fenc)}
		} else {
			specs = []hxLeafSpec{mk(0, 0, other, menc), mk(1, 0, content, fenc)}
		}
	}
	m := hxBuildC01(specs, menc, 0, false, "")
	root := hxRenderParse(m)
	svReach("rendered")
	hxCheckTree(root, specs)
}

var hxLongLens = []int{74, 75, 76, 77, 78, 996, 997, 998, 999, 1000, 1001, 2100}

// L3: content with one long line around the limits at which a writer might
// change its behaviour (76-character encoded lines, 998-octet RFC 5322 lines):
// a filler line of each length in hxLongLens followed by n symbolic bytes.
func HarnessC01LongLine() {
	n := svParam("n", 1)
	L := hxLongLens[svPick("line-length", svParam("lens", len(hxLongLens)))]
	enc := hxEnc(svPick("enc", 3))
	shape := svPick("shape", 3) // 0 single part, 1 body + attachment (content in the body), 2 body + attachment (content in the file)
	if shape == 2 && enc == EncodingQP {
		return // quoted-printable is documented as ignored for files
	}
	content := make([]byte, 0, L+n+16)
	for i := 0; i < L; i++ {
		content = append(content, byte('a'+i%26))
	}
	content = append(content, svBytes("c", n)...)
	content = append(content, []byte("\r\nsecond line\r\n")...)
	if enc == EncodingQP {
		hxAssumeText(content)
	}
	other := []byte("other leaf\r\n")
	var specs []hxLeafSpec
	menc, fenc := enc, EncodingB64
	switch shape {
	case 0:
		specs = []hxLeafSpec{{kind: 0, mtype: string(hxPartType[0]), enc: menc, content: content}}
	case 1:
		specs = []hxLeafSpec{{kind: 0, mtype: string(hxPartType[0]), enc: menc, content: content},
			{kind: 2, mtype: "application/octet-stream", name: "a.bin", enc: fenc, content: other}}
	case 2:
		menc, fenc = EncodingQP, enc
		specs = []hxLeafSpec{{kind: 0, mtype: string(hxPartType[0]), enc: menc, content: other},
			{kind: 2, mtype: "application/octet-stream", name: "a.bin", enc: fenc, content: content}}
	}
	m := hxBuildC01(specs, menc, 0, false, "")
	root := hxRenderParse(m)
	svReach("rendered")
	hxCheckTree(root, specs)
}


