package PKGNAME

import (
	"context"
	"io"
	"io/fs"
	"time"
)

// C11: rendering is repeatable and all output paths agree.

type hxFSFile struct {
	name string
	data []byte
	off  int
}

func (f *hxFSFile) Stat() (fs.FileInfo, error) { return hxFSInfo{f.name, int64(len(f.data))}, nil }
func (f *hxFSFile) Read(p []byte) (int, error) {
	if f.off >= len(f.data) {
		return 0, io.EOF
	}
	n := copy(p, f.data[f.off:])
	f.off += n
	return n, nil
}
func (f *hxFSFile) Close() error { return nil }

type hxFSInfo struct {
	name string
	size int64
}

func (i hxFSInfo) Name() string       { return i.name }
func (i hxFSInfo) Size() int64        { return i.size }
func (i hxFSInfo) Mode() fs.FileMode  { return 0o444 }
func (i hxFSInfo) ModTime() time.Time { return hxFixedTime }
func (i hxFSInfo) IsDir() bool        { return false }
func (i hxFSInfo) Sys() any           { return nil }

type hxFS struct {
	files map[string][]byte
}

func (f *hxFS) Open(name string) (fs.File, error) {
	d, ok := f.files[name]
	if !ok {
		return nil, fs.ErrNotExist
	}
	return &hxFSFile{name: name, data: d}, nil
}

type hxSeeker struct {
	data []byte
	off  int
}

func (r *hxSeeker) Read(p []byte) (int, error) {
	if r.off >= len(r.data) {
		return 0, io.EOF
	}
	n := copy(p, r.data[r.off:])
	r.off += n
	return n, nil
}

func (r *hxSeeker) Seek(offset int64, whence int) (int64, error) {
	switch whence {
	case io.SeekStart:
		r.off = int(offset)
	case io.SeekCurrent:
		r.off += int(offset)
	case io.SeekEnd:
		r.off = len(r.data) + int(offset)
	}
	return int64(r.off), nil
}

func hxReadAll(r io.Reader) ([]byte, error) {
	var out []byte
	buf := make([]byte, 97)
	for i := 0; i < 100000; i++ {
		n, err := r.Read(buf)
		out = append(out, buf[:n]...)
		if err == io.EOF {
			return out, nil
		}
		if err != nil {
			return out, err
		}
	}
	return out, nil
}

var hxOpNames = []string{"WriteTo", "Write", "NewReader", "UpdateReader", "failed-WriteTo", "Send"}

// hxEndCRLF appends the line end the SMTP DATA writer adds to content that
// does not end in one.
func hxEndCRLF(b []byte) []byte {
	if n := len(b); n >= 2 && b[n-2] == '\r' && b[n-1] == '\n' {
		return b
	}
	return append(append([]byte{}, b...), '\r', '\n')
}

func HarnessC11Repeat() {
	n := svParam("n", 1)
	nops := svParam("ops", 2)
	p := 1 + svPick("parts", svParam("parts", 2))
	a := svPick("atts", svParam("atts", 2)+1)
	e := svPick("embeds", svParam("embeds", 1)+1)
	menc := hxEnc(svPick("menc", 3))
	pre := svPick("preformatted", svParam("pres", 2)) // 0: none, 1: three preformatted headers
	m := NewMsg(WithEncoding(menc))
	_ = m.From("a@b.c")
	_ = m.To("d@e.f")
	m.Subject("repeat")
	// Date, Message-ID and boundaries are left to be generated on first use
	if pre == 1 {
		svNondetMapOrder("go-mail.Header]string", 3)
		m.SetGenHeaderPreformatted(Header("X-Pre-A"), "a")
		m.SetGenHeaderPreformatted(Header("X-Pre-B"), "b")
		
	}
	content := append([]byte("body "), svBytes("c", n)...)
	content = append(content, '\r', '\n')
	if menc == EncodingQP {
		hxAssumeText(content)
	}
	for i := 0; i < p; i++ {
		if i == 0 {
			m.SetBodyString(TypeTextPlain, string(content))
		} else {
			m.AddAlternativeString(hxPartType[i], hxPartText[i])
		}
	}
	fsys := &hxFS{files: map[string][]byte{"dir/fs.bin": []byte(hxFileData[0])}}
	for i := 0; i < e; i++ {
		_ = m.EmbedReader("emb.png", &hxRd{data: []byte(hxFileData[0])})
	}
	for i := 0; i < a; i++ {
		fenc := EncodingB64
		if svPick("fenc", 2) == 1 {
			fenc = NoEncoding
		}
		switch svPick("source", 3) {
		case 0:
			_ = m.AttachReader("r.txt", &hxRd{data: []byte(hxFileData[1])}, WithFileEncoding(fenc))
		case 1:
			m.AttachReadSeeker("rs.txt", &hxSeeker{data: []byte(hxFileData[1])}, WithFileEncoding(fenc))
		default:
			if err := m.AttachFromIOFS("dir/fs.bin", fsys, WithFileEncoding(fenc)); err != nil {
				svAssert(false, "setup-iofs")
			}
		}
	}
	var ref []byte
	haveRef := false
	refOp := ""
	refSend := false
	var rd *Reader
	for k := 0; k < nops; k++ {
		op := svPick("op", svParam("opkinds", len(hxOpNames)))
		var out []byte
		var err error
		ok := true
		switch op {
		case 0:
			w := &hxRecW{}
			_, err = m.WriteTo(w)
			out = w.buf
		case 1:
			w := &hxRecW{}
			_, err = m.Write(w)
			out = w.buf
		case 2:
			rd = m.NewReader()
			out, err = hxReadAll(rd)
		case 3:
			if rd == nil {
				rd = &Reader{}
			}
			m.UpdateReader(rd)
			out, err = hxReadAll(rd)
		case 4:
			fw := &hxFailW{k: 0}
			_, err = m.WriteTo(fw)
			svAssert(err != nil, "failed-render-without-error")
			ok = false
		case 5:
			// delivery to an accepting server: what the server commits is a render too
			// (for content without bare CR / LF: SMTP transports lines, the DATA
			// writer canonicalises anything else)
			hxAssumeText(content)
			for i, ch := range content {
				if ch == '\n' {
					svAssume(i > 0 && content[i-1] == '\r')
				}
			}
			// the server may or may not offer 8BITMIME: what it commits is the same
			// rendering (or the message is refused locally, which is no render)
			caps := []string{"8BITMIME"}
			if svPick("server-offers-8bitmime", svParam("capsets", 2)) == 1 {
				caps = []string{"PIPELINING"}
			}
			srv := hxNewSrv(caps)
			srv.onlyOK = true
			cl := hxNewClient(srv)
			if derr := cl.DialWithContext(context.Background()); derr != nil {
				svAssert(false, "setup-dial")
				return
			}
			err = cl.Send(m)
			if err != nil && len(caps[0]) != 8 && len(srv.commits) == 0 {
				svReach("send-refused-without-8bitmime")
				ok = false
				err = nil
			}
			if err == nil && ok {
				svAssert(len(srv.commits) == 1, "[Send] number of committed messages")
				if len(srv.commits) != 1 {
					return
				}
				out = srv.commits[0].data
			}
		}
		if !ok {
			continue
		}
		tag := "[" + hxOpNames[op] + "] "
		_ = refOp
		svAssert(err == nil, tag+"render-error")
		if err != nil {
			return
		}
		if !haveRef {
			ref, haveRef, refOp = out, true, hxOpNames[op]
			refSend = op == 5
			continue
		}
		if op == 5 || refSend {
			out, ref = hxEndCRLF(out), hxEndCRLF(ref)
		}
		svReach("compared")
		svAssert(len(out) == len(ref), tag+"output-length-differs")
		if len(out) == len(ref) {
			svAssert(hxEqBytes(out, ref), tag+"output-differs")
		}
	}
}

// A render that fails at a symbolic byte offset (a dropped connection, a full
// disk) must not change what the next render produces.
func HarnessC11AfterFailure() {
	p := 1 + svPick("parts", svParam("parts", 1))
	menc := hxEnc(svPick("menc", 3))
	src := svPick("source", 3)
	fenc := EncodingB64
	if svPick("fenc", 2) == 1 {
		fenc = NoEncoding
	}
	m := NewMsg(WithEncoding(menc))
	_ = m.From("a@b.c")
	_ = m.To("d@e.f")
	m.Subject("after failure")
	for i := 0; i < p; i++ {
		if i == 0 {
			m.SetBodyString(TypeTextPlain, hxPartText[0])
		} else {
			m.AddAlternativeString(hxPartType[i], hxPartText[i])
		}
	}
	fsys := &hxFS{files: map[string][]byte{"dir/fs.bin": []byte(hxFileData[0])}}
	data := []byte("SEED-ATTACHMENT-START 0123456789abcdef 0123456789abcdef END\r\n")
	switch src {
	case 0:
		_ = m.AttachReader("r.txt", &hxRd{data: data}, WithFileEncoding(fenc))
	case 1:
		m.AttachReadSeeker("rs.txt", &hxSeeker{data: data}, WithFileEncoding(fenc))
	default:
		_ = m.AttachFromIOFS("dir/fs.bin", fsys, WithFileEncoding(fenc))
	}
	w1 := &hxRecW{}
	if _, err := m.WriteTo(w1); err != nil {
		svAssert(false, "C11 first render failed")
		return
	}
	k := svInt("fail-offset")
	svAssume(k >= 0)
	svAssume(k < len(w1.buf))
	fw := &hxFailW{k: k}
	_, ferr := m.WriteTo(fw)
	svAssert(ferr != nil, "C11 failed render reported success")
	svReach("failed-render")
	w2 := &hxRecW{}
	if _, err := m.WriteTo(w2); err != nil {
		svAssert(false, "C11 render after a failed render returns an error")
		return
	}
	svAssert(len(w2.buf) == len(w1.buf), "C11 render after a failed render has a different length")
	if len(w2.buf) == len(w1.buf) {
		svAssert(hxEqBytes(w2.buf, w1.buf), "C11 render after a failed render differs")
	}
	rd := m.NewReader()
	out, rerr := hxReadAll(rd)
	svAssert(rerr == nil && len(out) == len(w1.buf) && hxEqBytes(out, w1.buf), "C11 Reader output after a failed render differs")
}

// Caller-chosen boundary (WithBoundary / SetBoundary): whatever the shape,
// every render produces the bytes of the first one.
func HarnessC11Boundary() {
	p := 1 + svPick("parts", 2)
	a := svPick("atts", 2)
	e := svPick("embeds", 2)
	menc := hxEnc(svPick("menc", 3))
	how := svPick("boundary-set-by", 2) // 0 WithBoundary, 1 SetBoundary
	var m *Msg
	if how == 0 {
		m = NewMsg(WithEncoding(menc), WithBoundary("caller-chosen-boundary"))
	} else {
		m = NewMsg(WithEncoding(menc))
		m.SetBoundary("caller-chosen-boundary")
	}
	_ = m.From("a@b.c")
	_ = m.To("d@e.f")
	m.Subject("repeat with a boundary")
	for i := 0; i < p; i++ {
		if i == 0 {
			m.SetBodyString(TypeTextPlain, hxPartText[0])
		} else {
			m.AddAlternativeString(hxPartType[i], hxPartText[i])
		}
	}
	for i := 0; i < e; i++ {
		_ = m.EmbedReader("emb.png", &hxRd{data: []byte(hxFileData[0])})
	}
	for i := 0; i < a; i++ {
		_ = m.AttachReader("att.txt", &hxRd{data: []byte(hxFileData[1])})
	}
	w1 := &hxRecW{}
	if _, err := m.WriteTo(w1); err != nil {
		svAssert(false, "C11 first render failed")
		return
	}
	svReach("rendered")
	w2 := &hxRecW{}
	if _, err := m.WriteTo(w2); err != nil {
		svAssert(false, "C11 second render failed")
		return
	}
	svAssert(len(w2.buf) == len(w1.buf) && hxEqBytes(w2.buf, w1.buf), "C11 [custom boundary] second WriteTo differs from the first render")
	out, rerr := hxReadAll(m.NewReader())
	svAssert(rerr == nil && len(out) == len(w1.buf) && hxEqBytes(out, w1.buf), "C11 [custom boundary] Reader output differs from the first render")
	w3 := &hxRecW{}
	if _, err := m.Write(w3); err != nil {
		svAssert(false, "C11 Write failed")
		return
	}
	svAssert(len(w3.buf) == len(w1.buf) && hxEqBytes(w3.buf, w1.buf), "C11 [custom boundary] Write differs from the first render")
}
