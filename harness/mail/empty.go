package PKGNAME

func HarnessEmpty() {}
