package PKGNAME

import (
	"context"
	"crypto/tls"
	"net"
)

// C19 with TLS (ghost TLS layer of c07.go): STARTTLS offered and refused, or
// accepted and followed by a failing handshake; implicit TLS with a failing
// handshake. Whatever fails, the transport connection must be closed.
func HarnessC19TLS() {
	hxTLSConns = map[*tls.Conn]*hxTLSState{}
	hxTLSCfgSeen = nil
	entry := svPick("entry", 2)     // 0 DialWithContext, 1 DialAndSend
	policy := svPick("policy", 3)   // 0 mandatory, 1 opportunistic, 2 implicit TLS
	authMode := svPick("auth", 2)   // 0 none, 1 PLAIN
	host := "mail.example"
	caps := []string{"8BITMIME", "STARTTLS"}
	if authMode > 0 {
		caps = append(caps, "AUTH PLAIN LOGIN")
	}
	s := hxNewSrv(caps)
	s.onlyOK = true
	s.authFn = hxAuthSimple
	s.starttlsReply = svPick("starttls-reply", 4) // 0: 220, 1: 454, 2: 501, 3: garbage line
	hs := svPick("handshake", 4)                  // 0 ok, 1 wrong-name certificate, 2 untrusted certificate, 3 garbage
	s.certName, s.certTrusted, s.tlsGarbage = host, true, false
	switch hs {
	case 1:
		s.certName = "other.example"
	case 2:
		s.certTrusted = false
	case 3:
		s.tlsGarbage = true
	}
	authFails := svPick("auth-rejected", 2) == 1
	if authFails {
		s.authFn = func(s *hxSrv, line string) {
			s.inAuth = false
			s.out = append(s.out, "535 5.7.8 authentication credentials invalid\r\n"...)
		}
	}
	opts := []Option{WithHELO("client.example")}
	switch policy {
	case 1:
		opts = append(opts, WithTLSPolicy(TLSOpportunistic))
	case 2:
		opts = append(opts, WithSSL())
	}
	if authMode == 1 {
		opts = append(opts, WithSMTPAuth(SMTPAuthPlain), WithUsername("user"), WithPassword("secret"))
	}
	under := &hxConn{s: s}
	opts = append(opts, WithDialContextFunc(func(ctx context.Context, network, address string) (net.Conn, error) {
		if policy == 2 {
			return tls.Client(under, &tls.Config{ServerName: host, MinVersion: tls.VersionTLS12}), nil
		}
		return under, nil
	}))
	c, err := NewClient(host, opts...)
	if err != nil {
		svAssert(false, "setup-newclient")
		return
	}
	if entry == 0 {
		err = c.DialWithContext(context.Background())
	} else {
		err = c.DialAndSend(hxTestMsg(0, 1, 0, EncodingQP))
	}
	if err != nil {
		svReach("failed")
		step := hxLastStep(s)
		if s.tlsActive {
			step += " (inside TLS)"
		} else if len(s.cmds) > 0 && s.cmds[len(s.cmds)-1].verb == "STARTTLS" && s.starttlsReply == 0 {
			step = "the TLS handshake"
		}
		svAssert(s.closed, "C19 connection left open after failure at "+step)
		return
	}
	svReach("succeeded")
	if entry == 1 {
		svAssert(s.quitSeen, "C19 successful DialAndSend without QUIT")
		svAssert(s.closed, "C19 successful DialAndSend left the connection open")
	}
}
