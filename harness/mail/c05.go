package PKGNAME

import "context"

// C05: envelope addresses and command lines cannot be smuggled.

func hxIsAtext(c byte) bool {
	switch {
	case c >= 'a' && c <= 'z', c >= 'A' && c <= 'Z', c >= '0' && c <= '9':
		return true
	case c >= 0x80: // RFC 6531 (SMTPUTF8 is advertised by the harness server)
		return true
	}
	switch c {
	case '!', '#', '$', '%', '&', '\'', '*', '+', '-', '/', '=', '?', '^', '_', '`', '{', '|', '}', '~':
		return true
	}
	return false
}

// hxParsePath parses an RFC 5321 Reverse-path / Forward-path "<...>" at the
// start of b. It returns the mailbox with the local part unquoted, the number
// of bytes consumed, and ok.
func hxParsePath(b []byte) (mailbox []byte, n int, ok bool) {
	if len(b) < 2 || b[0] != '<' {
		return nil, 0, false
	}
	i := 1
	if b[i] == '>' {
		return nil, 2, true
	}
	var local []byte
	if b[i] == '"' {
		i++
		for {
			if i >= len(b) {
				return nil, 0, false
			}
			c := b[i]
			if c == '"' {
				i++
				break
			}
			if c == '\\' {
				if i+1 >= len(b) || b[i+1] < 32 || b[i+1] > 126 {
					return nil, 0, false
				}
				local = append(local, b[i+1])
				i += 2
				continue
			}
			if !(c == 32 || c == 33 || (c >= 35 && c <= 91) || (c >= 93 && c <= 126) || c >= 0x80) {
				return nil, 0, false
			}
			local = append(local, c)
			i++
		}
	} else {
		// Dot-string
		lastDot := true
		for i < len(b) && b[i] != '@' {
			c := b[i]
			if c == '.' {
				if lastDot {
					return nil, 0, false
				}
				lastDot = true
			} else if hxIsAtext(c) {
				lastDot = false
			} else {
				return nil, 0, false
			}
			local = append(local, c)
			i++
		}
		if lastDot {
			return nil, 0, false
		}
	}
	if i >= len(b) || b[i] != '@' {
		return nil, 0, false
	}
	i++
	var dom []byte
	lastDot := true
	for i < len(b) && b[i] != '>' {
		c := b[i]
		if c == '.' {
			if lastDot {
				return nil, 0, false
			}
			lastDot = true
		} else if (c >= 'a' && c <= 'z') || (c >= 'A' && c <= 'Z') || (c >= '0' && c <= '9') || c == '-' || c >= 0x80 {
			lastDot = false
		} else {
			return nil, 0, false
		}
		dom = append(dom, c)
		i++
	}
	if lastDot || i >= len(b) {
		return nil, 0, false
	}
	mailbox = append(append(append([]byte{}, local...), '@'), dom...)
	return mailbox, i + 1, true
}

// hxCheckEnvelopeLine checks one MAIL/RCPT line against the mailbox the
// caller put on the message.
func hxCheckEnvelopeLine(line string, prefix string, want string, okParams []string) {
	b := []byte(line)
	if len(b) < len(prefix) || string(b[:len(prefix)]) != prefix {
		svAssert(false, "C05 command line does not start with "+prefix)
		return
	}
	mb, n, ok := hxParsePath(b[len(prefix):])
	svAssert(ok, "C05 "+prefix+" path is not a valid RFC 5321 path (local part needing quoting sent unquoted)")
	if !ok {
		return
	}
	svAssert(string(mb) == want, "C05 "+prefix+" path denotes a different mailbox")
	rest := b[len(prefix)+n:]
	// only parameters go-mail itself adds
	i := 0
	for i < len(rest) {
		if rest[i] != ' ' {
			svAssert(false, "C05 garbage after the path")
			return
		}
		i++
		k := i
		for k < len(rest) && rest[k] != ' ' {
			k++
		}
		p := string(rest[i:k])
		known := false
		for _, o := range okParams {
			known = known || o == p
		}
		svAssert(known, "C05 extra ESMTP parameter on the command line")
		i = k
	}
}

func HarnessC05Envelope() {
	n := svParam("n", 2)
	which := svPick("field", svParam("fields", 7)) // 0 From, 1 To, 2 To followed by AddTo of another address, 3 EnvelopeFrom, 4 FromFormat, 5 AddToFormat, 6 EnvelopeFromFormat
	lp := svBytes("lp", n)
	for _, c := range lp {
		svAssume(c >= 0x20)
		svAssume(c <= 0x7e)
	}
	addr := `"` + string(lp) + `"@example.com`
	m := NewMsg()
	m.Subject("c05")
	m.SetBodyString(TypeTextPlain, "body\r\n")
	var err error
	switch which {
	case 0:
		err = m.From(addr)
		_ = m.To("rcpt@example.com")
	case 3:
		_ = m.From("header-from@example.com")
		err = m.EnvelopeFrom(addr)
		_ = m.To("rcpt@example.com")
	case 4:
		err = m.FromFormat("Display Name", addr)
		_ = m.To("rcpt@example.com")
	case 5:
		_ = m.From("sender@example.com")
		err = m.AddToFormat("Display Name", addr)
	case 6:
		_ = m.From("header-from@example.com")
		err = m.EnvelopeFromFormat("Display Name", addr)
		_ = m.To("rcpt@example.com")
	default:
		_ = m.From("sender@example.com")
		err = m.To(addr)
	}
	if err != nil {
		svReach("setter-rejected")
		return
	}
	svReach("setter-accepted")
	// the mailbox the caller put on the message, as the setter understood it
	var want string
	switch which {
	case 0, 4:
		want = m.GetFrom()[0].Address
	case 3, 6:
		want, _ = m.GetSender(false)
	default:
		want = m.GetTo()[0].Address
	}
	// independent reading for local parts without quoted-pairs: the text between
	// the quotes is the local part, blanks included
	plain := true
	for _, c := range lp {
		if c == '\\' || c == '"' {
			plain = false
		}
	}
	if plain {
		svAssert(want == string(lp)+"@example.com", "C05 setter stored a different mailbox than the quoted local part denotes")
	}
	if which == 2 {
		// a later Add* call must not change the addresses already on the message
		if aerr := m.AddTo("second@example.com"); aerr != nil {
			svReach("add-rejected")
			return
		}
	}
	s := hxNewSrv([]string{"8BITMIME", "SMTPUTF8"})
	s.onlyOK = true
	c := hxNewClient(s)
	if derr := c.DialWithContext(context.Background()); derr != nil {
		svAssert(false, "setup-dial")
		return
	}
	serr := c.Send(m)
	sawMail := false
	nrcpt := 0
	for _, cm := range s.cmds {
		switch cm.verb {
		case "MAIL":
			sawMail = true
			w := "sender@example.com"
			if which == 0 || which == 3 || which == 4 || which == 6 {
				w = want
			}
			hxCheckEnvelopeLine(cm.line, "MAIL FROM:", w, []string{"BODY=8BITMIME", "SMTPUTF8"})
		case "RCPT":
			w := "rcpt@example.com"
			if which == 1 || which == 2 || which == 5 {
				w = want
				if nrcpt > 0 {
					w = "second@example.com"
				}
			}
			nrcpt++
			hxCheckEnvelopeLine(cm.line, "RCPT TO:", w, nil)
		case "EHLO", "NOOP", "DATA", "EOD", "RSET", "QUIT":
		default:
			svAssert(false, "C05 unexpected command "+cm.verb)
		}
	}
	if serr != nil {
		svAssert(!sawMail, "C05 address refused only after something was sent")
		svReach("refused-before-sending")
	}
}

// HELO name: exactly one argument, no blanks or controls.
func HarnessC05Helo() {
	n := svParam("n", 2)
	hb := svBytes("helo", n)
	s := hxNewSrv([]string{"8BITMIME"})
	s.onlyOK = true
	cl, err := NewClient("mail.example", WithDialContextFunc(hxDialFunc(s)), WithTLSPolicy(NoTLS), WithHELO(string(hb)))
	if err != nil {
		svReach("option-rejected")
		return
	}
	derr := cl.DialWithContext(context.Background())
	if len(s.cmds) == 0 {
		svAssert(derr != nil, "C05 nothing sent but dial succeeded")
		svAssert(len(s.in) == 0, "C05 partial line written for a rejected HELO name")
		svReach("rejected-before-sending")
		return
	}
	svReach("sent")
	first := s.cmds[0]
	svAssert(first.verb == "EHLO", "C05 first command is not EHLO")
	arg := []byte(first.line)
	svAssert(len(arg) > 5, "C05 EHLO without argument")
	if len(arg) <= 5 {
		return
	}
	arg = arg[5:]
	svAssert(hxEqBytes(arg, hb), "C05 EHLO argument differs from the configured name")
	bad := false
	for _, c := range arg {
		if c <= 32 || c == 127 {
			bad = true
		}
	}
	svAssert(!bad, "C05 EHLO argument contains blanks or control characters (extra arguments)")
	// the rest of the session must be unaffected
	svAssert(len(s.cmds) == 1 || s.cmds[1].verb != "EHLO", "C05 HELO name produced a second command")
}

func hxIsB64Text(b []byte) bool {
	for _, c := range b {
		if hxB64InvC05[c] == 0 {
			return false
		}
	}
	return true
}

var hxB64InvC05 [256]byte

func init() {
	for _, c := range []byte("ABCDEFGHIJKLMNOPQRSTUVWXYZabcdefghijklmnopqrstuvwxyz0123456789+/=") {
		hxB64InvC05[c] = 1
	}
}

// Credentials: arbitrary user name / password bytes must not change the
// shape of the AUTH exchange (one line per step, base64 only).
func HarnessC05Auth() {
	n := svParam("n", 2)
	mech := svPick("mech", 2) // 0 PLAIN, 1 LOGIN
	user := svBytes("user", n)
	pass := svBytes("pass", n)
	s := hxNewSrv([]string{"AUTH PLAIN LOGIN"})
	s.onlyOK = true
	s.authFn = hxAuthSimple
	at := SMTPAuthPlainNoEnc
	if mech == 1 {
		at = SMTPAuthLoginNoEnc
	}
	c := hxNewClient(s, WithSMTPAuth(at), WithUsername(string(user)), WithPassword(string(pass)))
	err := c.DialWithContext(context.Background())
	svReach("dialled")
	want := []string{"EHLO", "AUTH"}
	if mech == 1 {
		want = append(want, "AUTH-CONT", "AUTH-CONT")
	}
	if err != nil {
		svReach("dial-error")
		return
	}
	svAssert(len(s.cmds) == len(want), "C05 credentials changed the number of command lines")
	if len(s.cmds) != len(want) {
		return
	}
	for i, cm := range s.cmds {
		svAssert(cm.verb == want[i], "C05 unexpected command in the AUTH exchange")
		l := []byte(cm.line)
		switch {
		case i == 1 && mech == 0:
			svAssert(len(l) > 11 && string(l[:11]) == "AUTH PLAIN " && hxIsB64Text(l[11:]), "C05 AUTH PLAIN line is not 'AUTH PLAIN <base64>'")
		case i == 1:
			svAssert(string(l) == "AUTH LOGIN", "C05 AUTH LOGIN line carries extra arguments")
		case i > 1:
			svAssert(hxIsB64Text(l), "C05 AUTH continuation line is not pure base64")
		}
	}
}
