package PKGNAME

import (
	"context"
	"time"
)

// hxLateCtx is a caller context whose deadline is ten minutes away.
type hxLateCtx struct{}

func (hxLateCtx) Deadline() (time.Time, bool) { return time.Now().Add(10 * time.Minute), true }
func (hxLateCtx) Done() <-chan struct{}       { return nil }
func (hxLateCtx) Err() error                  { return nil }
func (hxLateCtx) Value(key any) any           { return nil }

// C17: every network operation is bounded by the configured timeout.
// The server answers honestly up to a chosen point and is silent afterwards;
// a read from a silent peer returns (with a timeout error) only if a deadline
// is armed, otherwise the call would block forever.
func HarnessC17Stall() {
	entry := svPick("entry", 3) // 0 DialWithContext, 1 DialAndSend, 2 Dial then Send (+Reset)
	authMode := svPick("auth", svParam("auths", 3))
	caps := []string{"8BITMIME"}
	if authMode > 0 {
		caps = append(caps, "AUTH PLAIN LOGIN")
	}
	s := hxNewSrv(caps)
	s.onlyOK = true
	s.authFn = hxAuthSimple
	s.expectTimeout = 7 * time.Second
	// stall point: -1 = silent before the greeting, k = no reply to command k
	// (-2 = the server stops READING once it accepted DATA: content writes block)
	k := svPick("stall", svParam("maxstall", 12)+2) - 2
	switch {
	case k == -2:
		s.contentStall = true
	case k < 0:
		s.out = nil
		s.stalled = true
	default:
		s.stallAt = k
	}
	opts := []Option{WithTimeout(7 * time.Second)}
	if svPick("without-noop", 2) == 1 {
		opts = append(opts, WithoutNoop())
	}
	switch authMode {
	case 1:
		opts = append(opts, WithSMTPAuth(SMTPAuthPlainNoEnc), WithUsername("user"), WithPassword("secret"))
	case 2:
		opts = append(opts, WithSMTPAuth(SMTPAuthLoginNoEnc), WithUsername("user"), WithPassword("secret"))
	}
	// route: the configured port answers, or it is closed and the fallback port
	// (WithTLSPortPolicy / WithSSLPort(true)) reaches the server
	route := svPick("dial-route", svParam("routes", 3))
	switch route {
	case 1:
		opts = append(opts, WithTLSPortPolicy(TLSOpportunistic))
		s.refuseDials = 1
	case 2:
		opts = append(opts, WithSSLPort(true))
		s.refuseDials = 1
	}
	c := hxNewClient(s, opts...)
	s.phase = "dial"
	var err error
	// the caller's context may carry a deadline of its own that lies far beyond
	// the configured timeout: the timeout still bounds every network operation
	var ctx context.Context = context.Background()
	if svPick("caller-context", 2) == 1 {
		ctx = hxLateCtx{}
	}
	switch entry {
	case 0:
		err = c.DialWithContext(ctx)
	case 1:
		s.phase = "dial-and-send"
		err = c.DialAndSend(hxTestMsg(0, 1, 0, EncodingQP))
	default:
		err = c.DialWithContext(ctx)
		if err == nil {
			s.phase = "send"
			err = c.Send(hxTestMsg(0, 1, 0, EncodingQP))
			if err == nil {
				s.phase = "reset"
				err = c.Reset()
			}
		}
	}
	if route > 0 && len(s.dialed) > 1 {
		svReach("fallback-port-dialed")
	}
	if s.stalled {
		svReach("stalled")
		svAssert(err != nil, "C17 call returned success although the server went silent")
	} else {
		svReach("stall-point-beyond-dialogue")
	}
}
