package PKGNAME

import (
	"io"
)

// C09: EML parsing is total (returns a message or an error, never panics,
// always terminates). Templates with symbolic holes.

const hxEML1 = "Date: Wed, 01 Nov 2023 00:00:00 +0000\r\n" +
	"MIME-Version: 1.0\r\n" +
	"Message-ID: <1305604950.683004066175.AAAAAAAAaaaaaaaaB@go-mail.dev>\r\n" +
	"Subject: Example mail // plain text quoted-printable\r\n" +
	"From: \"Toni Tester\" <go-mail@go-mail.dev>\r\n" +
	"To: <go-mail+test@go-mail.dev>\r\n" +
	"Content-Type: text/plain; charset=UTF-8\r\n" +
	"Content-Transfer-Encoding: quoted-printable\r\n" +
	"\r\n" +
	"Dear Customer,\r\n\r\nThis is a test mail =3D with an =\r\nencoded line.\r\n"

const hxEML2 = "Date: Wed, 01 Nov 2023 00:00:00 +0000\r\n" +
	"MIME-Version: 1.0\r\n" +
	"Subject: Example mail // multipart mixed with attachment\r\n" +
	"From: \"Toni Tester\" <go-mail@go-mail.dev>\r\n" +
	"To: <go-mail+test@go-mail.dev>\r\n" +
	"Content-Type: multipart/mixed;\r\n boundary=45c75ff528359022eb03679fbe91877d\r\n" +
	"\r\n" +
	"--45c75ff528359022eb03679fbe91877d\r\n" +
	"Content-Transfer-Encoding: quoted-printable\r\n" +
	"Content-Type: text/plain; charset=UTF-8\r\n" +
	"\r\n" +
	"Dear Customer,\r\n\r\nplain body\r\n" +
	"--45c75ff528359022eb03679fbe91877d\r\n" +
	"Content-Disposition: attachment; filename=\"test.txt\"\r\n" +
	"Content-Transfer-Encoding: base64\r\n" +
	"Content-Type: text/plain; charset=utf-8; name=\"test.txt\"\r\n" +
	"\r\n" +
	"VGhpcyBpcyBhIHNpbXBsZSB0ZXN0IHRleHQgZmlsZQ==\r\n" +
	"--45c75ff528359022eb03679fbe91877d--\r\n"

const hxEML3 = "Date: Wed, 01 Nov 2023 00:00:00 +0000\r\n" +
	"MIME-Version: 1.0\r\n" +
	"Subject: related and alternative\r\n" +
	"From: <go-mail@go-mail.dev>\r\n" +
	"To: <go-mail+test@go-mail.dev>\r\n" +
	"Cc: <cc@go-mail.dev>\r\n" +
	"Content-Type: multipart/mixed; boundary=\"mixedB\"\r\n" +
	"\r\n" +
	"--mixedB\r\n" +
	"Content-Type: multipart/related; boundary=relB\r\n" +
	"\r\n" +
	"--relB\r\n" +
	"Content-Type: multipart/alternative; boundary=altB\r\n" +
	"\r\n" +
	"--altB\r\n" +
	"Content-Type: text/plain; charset=UTF-8\r\n" +
	"Content-Transfer-Encoding: 7bit\r\n" +
	"\r\n" +
	"plain\r\n" +
	"--altB\r\n" +
	"Content-Type: text/html; charset=UTF-8\r\n" +
	"Content-Transfer-Encoding: base64\r\n" +
	"\r\n" +
	"PGI+aHRtbDwvYj4=\r\n" +
	"--altB--\r\n" +
	"--relB\r\n" +
	"Content-Disposition: inline; filename=\"pixel.png\"\r\n" +
	"Content-Id: <pixel.png>\r\n" +
	"Content-Transfer-Encoding: base64\r\n" +
	"Content-Type: image/png; name=\"pixel.png\"\r\n" +
	"\r\n" +
	"iVBORw0KGgo=\r\n" +
	"--relB--\r\n" +
	"--mixedB--\r\n"

var hxEMLTemplates = []string{hxEML1, hxEML2, hxEML3}

// holes: per template the texts that are replaced (first occurrence) by the
// symbolic bytes; they cover the syntactic position classes of the property.
var hxEMLHoles = [][]string{
	{"Content-Type", ": text/plain", "charset", "UTF-8", "quoted-printable", "Date", "Wed, 01", "<go-mail@", "=3D", "=\r\n", "\r\n\r\nDear"},
	{"\"test.txt\"\r\nContent-Transfer", "attachment", "filename", "base64", "boundary=", "45c75ff5", "--45c75ff528359022eb03679fbe91877d\r\nContent-Disposition", "mixed", "VGhp", "==\r\n", "name=\"test.txt\"", "--45c75ff528359022eb03679fbe91877d--"},
	{"\"pixel.png\"\r\nContent-Id", "inline", "<pixel.png>", "multipart/related", "multipart/alternative", "relB\r\n\r\n", "--altB--", "7bit", "\"mixedB\"", "PGI+", "Content-Disposition", "<cc@"},
}

func hxPanicLabel(r any) string {
	s := "unknown"
	switch v := r.(type) {
	case error:
		s = v.Error()
	case string:
		s = v
	}
	if i := hxIndexStr(s, "out of range"); i >= 0 {
		s = s[:i+12]
	}
	b := []byte(s)
	var out []byte
	for _, c := range b {
		if c >= '0' && c <= '9' {
			if len(out) > 0 && out[len(out)-1] == '#' {
				continue
			}
			c = '#'
		}
		out = append(out, c)
	}
	if len(out) > 60 {
		out = out[:60]
	}
	return string(out)
}

func hxIndexStr(hay, needle string) int {
	for i := 0; i+len(needle) <= len(hay); i++ {
		if hay[i:i+len(needle)] == needle {
			return i
		}
	}
	return -1
}

func HarnessC09Holes() {
	t := svPick("template", svParam("templates", 3))
	holes := hxEMLHoles[t]
	h := svPick("hole", len(holes))
	k := svParam("k", 1)
	mode := svPick("mode", 2) // 0: replace the first k bytes of the hole text, 1: replace the whole hole text
	tpl := hxEMLTemplates[t]
	at := hxIndexStr(tpl, holes[h])
	if at < 0 {
		svAssert(false, "setup-hole-not-found")
		return
	}
	cut := k
	if mode == 1 {
		cut = len(holes[h])
	}
	if cut > len(holes[h]) {
		cut = len(holes[h])
	}
	sym := svBytes("x", k)
	data := append(append([]byte(tpl[:at]), sym...), tpl[at+cut:]...)
	func() {
		defer func() {
			if r := recover(); r != nil {
				if hxIsStop(r) {
					panic(r)
				}
				svAssert(false, "C09 panic: "+hxPanicLabel(r))
			}
		}()
		m, err := EMLToMsgFromString(string(data))
		if err != nil {
			svReach("parse-error")
		} else {
			svReach("parsed")
			_ = m
		}
	}()
}

type hxFailReader struct {
	data []byte
	off  int
	fail int // fail when off reaches this offset
	one  bool
	kind int // error value returned at the failure point
}

func (r *hxFailReader) Read(p []byte) (int, error) {
	if r.off >= r.fail {
		// what a failing reader returns is its own business: a custom error, the io
		// sentinels of truncated sources (gzip, HTTP bodies), or a plain early EOF
		switch r.kind {
		case 1:
			return 0, io.ErrUnexpectedEOF
		case 2:
			return 0, io.EOF
		case 3:
			return 0, &hxWrapErr{io.ErrUnexpectedEOF}
		}
		return 0, hxProdErr
	}
	if r.off >= len(r.data) {
		return 0, io.EOF
	}
	n := len(p)
	if r.one && n > 1 {
		n = 1
	}
	if n > r.fail-r.off {
		n = r.fail - r.off
	}
	if n > len(r.data)-r.off {
		n = len(r.data) - r.off
	}
	copy(p, r.data[r.off:r.off+n])
	r.off += n
	return n, nil
}

// Readers that fail at every offset / deliver one byte at a time.
func HarnessC09Reader() {
	t := 1
	if svParam("rtemplates", 1) > 1 {
		t = svPick("template", 3)
	}
	tpl := hxEMLTemplates[t]
	j := svInt("fail-offset")
	svAssume(j >= 0)
	svAssume(j <= len(tpl)+1)
	one := svParam("onebyte", 0) == 1 && svPick("one-byte-reads", 2) == 1
	defer func() {
		if r := recover(); r != nil {
			if hxIsStop(r) {
				panic(r)
			}
			svAssert(false, "C09 panic: "+hxPanicLabel(r))
		}
	}()
	kind := svPick("reader-error-kind", svParam("errkinds", 4))
	_, err := EMLToMsgFromReader(&hxFailReader{data: []byte(tpl), fail: j, one: one, kind: kind})
	if err != nil {
		svReach("parse-error")
	} else {
		svReach("parsed")
	}
}

// Whole field values: the complete value of one header field (message level or
// part level) is replaced by k fully symbolic bytes - every value of that
// length, which for short k reaches the degenerate members of each field's
// grammar (empty group "a:;", lone "<", "=?", ";=", unterminated quote ...).
const hxEML4 = "Date: Wed, 01 Nov 2023 00:00:00 +0000\r\n" +
	"MIME-Version: 1.0\r\n" +
	"Message-ID: <1305604950.683004066175@go-mail.dev>\r\n" +
	"Subject: values\r\n" +
	"From: <go-mail@go-mail.dev>\r\n" +
	"To: <to@go-mail.dev>\r\n" +
	"Cc: <cc@go-mail.dev>\r\n" +
	"Bcc: <bcc@go-mail.dev>\r\n" +
	"Reply-To: <rt@go-mail.dev>\r\n" +
	"X-Priority: 1\r\n" +
	"Content-Type: multipart/mixed; boundary=BB\r\n" +
	"\r\n" +
	"--BB\r\n" +
	"Content-Transfer-Encoding: quoted-printable\r\n" +
	"Content-Type: text/plain; charset=UTF-8\r\n" +
	"Content-Description: d\r\n" +
	"\r\n" +
	"body\r\n" +
	"--BB\r\n" +
	"Content-Disposition: attachment; filename=\"t.txt\"\r\n" +
	"Content-Id: <t.txt>\r\n" +
	"Content-Transfer-Encoding: base64\r\n" +
	"Content-Type: text/plain; name=\"t.txt\"\r\n" +
	"\r\n" +
	"VGhp\r\n" +
	"--BB--\r\n"

// anchors of the fields whose value is replaced (first occurrence)
var hxEMLValueFields = []string{
	"From: ", "To: ", "Cc: ", "Bcc: ", "Date: ", "Subject: ", "Message-ID: ", "MIME-Version: ",
	"Content-Type: multipart", "\r\nContent-Transfer-Encoding: quoted", "\r\nContent-Type: text/plain; charset",
	"Content-Disposition: ", "Content-Id: ", "\r\nContent-Transfer-Encoding: base64", "\r\nContent-Type: text/plain; name",
	"Reply-To: ", "Content-Description: ",
}

func HarnessC09Values() {
	f := svPick("field", len(hxEMLValueFields))
	k := svParam("k", 3)
	if f < svParam("deepfields", 0) {
		k++ // the address-list grammar (From, To) gets one more symbolic byte
	}
	if svParam("lens", 0) == 1 {
		k = svPick("value-length", k+1)
	}
	tpl := hxEML4
	anchor := hxEMLValueFields[f]
	at := hxIndexStr(tpl, anchor)
	if at < 0 {
		svAssert(false, "setup-field-not-found")
		return
	}
	// the value starts after the first ": " of the anchor and ends at the CRLF
	vs := at + hxIndexStr(anchor, ": ") + 2
	ve := vs + hxIndexStr(tpl[vs:], "\r\n")
	sym := svBytes("v", k)
	// optional fixed lead-in that puts the symbolic bytes inside a syntactic context
	ctx := svPick("context", svParam("ctxs", 1))
	pre, post := "", ""
	switch ctx {
	case 1:
		pre, post = "\"n\" <", ">"
	case 2:
		pre, post = "a/b; x=\"", "\""
	case 3:
		pre, post = "=?UTF-8?q?", "?="
	}
	data := append(append(append(append([]byte(tpl[:vs]), pre...), sym...), post...), tpl[ve:]...)
	func() {
		defer func() {
			if r := recover(); r != nil {
				if hxIsStop(r) {
					panic(r)
				}
				svAssert(false, "C09 panic: "+hxPanicLabel(r))
			}
		}()
		_, err := EMLToMsgFromString(string(data))
		if err != nil {
			svReach("parse-error")
		} else {
			svReach("parsed")
		}
	}()
}
