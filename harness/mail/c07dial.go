package PKGNAME

import (
	"context"
	"crypto/tls"
	"net"
)

// C07 with go-mail's own dialers: no DialContextFunc is injected; net.Dialer
// and tls.Dialer are replaced by the models below (override table), which
// connect to the harness servers listening on the ports of hxPorts. A port
// without a server refuses the connection. tls.Dialer performs the ghost TLS
// handshake of c07.go right after connecting.

var hxPorts = map[string]*hxSrv{}      // "host:port" -> server
var hxPortImplicit = map[*hxSrv]bool{} // the server speaks TLS from the first byte

func hxNetDialerDial(d *net.Dialer, ctx context.Context, network, address string) (net.Conn, error) {
	s := hxPorts[address]
	if s == nil {
		return nil, &hxNetErr{"dial tcp " + address + ": connect: connection refused"}
	}
	s.dialed = append(s.dialed, address)
	return &hxConn{s: s}, nil
}

func hxTLSDialerDial(d *tls.Dialer, ctx context.Context, network, address string) (net.Conn, error) {
	conn, err := hxNetDialerDial(d.NetDialer, ctx, network, address)
	if err != nil {
		return nil, err
	}
	tc := tls.Client(conn, d.Config)
	st := hxTLSConns[tc]
	if !hxPortImplicit[st.under.s] {
		st.garbage = true // a plain SMTP port answers a ClientHello with its greeting
	}
	if err := hxTLSHandshake(st); err != nil {
		_ = conn.Close()
		return nil, err
	}
	return tc, nil
}

func HarnessC07Dialer() {
	hxInstallRand().concrete = true
	hxTLSConns = map[*tls.Conn]*hxTLSState{}
	hxTLSCfgSeen = nil
	hxPorts = map[string]*hxSrv{}
	hxPortImplicit = map[*hxSrv]bool{}
	host := "mail.example"
	config := svPick("config", 5) // 0 WithSSL, 1 WithSSLPort(false), 2 WithSSLPort(true), 3 WithTLSPortPolicy(mandatory), 4 WithTLSPortPolicy(opportunistic)
	primary := svPick("primary-port", 3) // 0 answers, 1 closed, 2 answers with an untrusted certificate (implicit TLS) / without STARTTLS
	fbStartTLS := svPick("fallback-port-offers-starttls", 2) == 1
	implicit := config <= 2
	port := []string{"25", "465", "465", "587", "587"}[config]
	mk := func(starttls bool) *hxSrv {
		caps := []string{"8BITMIME"}
		if starttls {
			caps = append(caps, "STARTTLS")
		}
		s := hxNewSrv(caps)
		s.onlyOK = true
		s.certName, s.certTrusted = host, true
		return s
	}
	var sp *hxSrv
	if primary != 1 {
		sp = mk(!implicit && primary == 0)
		hxPortImplicit[sp] = implicit
		if implicit && primary == 2 {
			sp.certTrusted = false
		}
		hxPorts[host+":"+port] = sp
	}
	var sf *hxSrv
	if port != "25" {
		// whatever listens on the plain SMTP port
		sf = mk(fbStartTLS)
		hxPorts[host+":25"] = sf
	}
	opts := []Option{WithHELO("client.example")}
	switch config {
	case 0:
		opts = append(opts, WithSSL())
	case 1:
		opts = append(opts, WithSSLPort(false))
	case 2:
		opts = append(opts, WithSSLPort(true))
	case 3:
		opts = append(opts, WithTLSPortPolicy(TLSMandatory))
	case 4:
		opts = append(opts, WithTLSPortPolicy(TLSOpportunistic))
	}
	c, err := NewClient(host, opts...)
	if err != nil {
		svAssert(false, "setup-newclient")
		return
	}
	derr := c.DialAndSend(hxTestMsg(0, 1, 0, EncodingQP))
	if derr == nil {
		svReach("delivered")
	} else {
		svReach("failed")
	}
	tag := "[" + []string{"WithSSL", "WithSSLPort(false)", "WithSSLPort(true)", "WithTLSPortPolicy(mandatory)", "WithTLSPortPolicy(opportunistic)"}[config] + "] "
	for _, s := range []*hxSrv{sp, sf} {
		if s == nil {
			continue
		}
		if s == sf && len(s.dialed) > 0 {
			svReach("fallback-port-dialed")
		}
		for _, ch := range s.clear {
			l := ch
			for len(l) > 0 && (l[len(l)-1] == '\n' || l[len(l)-1] == '\r') {
				l = l[:len(l)-1]
			}
			sp0 := 0
			for sp0 < len(l) && l[sp0] != ' ' {
				sp0++
			}
			verb := hxUpper(l[:sp0])
			if implicit {
				svAssert(false, tag+"C07 implicit TLS: cleartext bytes on the wire")
			}
			if config == 3 {
				ok := verb == "EHLO" || verb == "HELO" || verb == "STARTTLS" || verb == "QUIT"
				svAssert(ok, tag+"C07 mandatory TLS: cleartext command other than EHLO/HELO/STARTTLS/QUIT before the handshake")
			}
		}
	}
	for _, cfg := range hxTLSCfgSeen {
		svAssert(cfg != nil && cfg.ServerName == host, tag+"C07 tls.Config.ServerName is not the configured host")
		svAssert(cfg != nil && !cfg.InsecureSkipVerify, tag+"C07 certificate verification switched off")
	}
}
