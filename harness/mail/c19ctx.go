package PKGNAME

import (
	"errors"
	"time"
)

var hxCtxCanceled = errors.New("context canceled")

// hxCancelCtx is a caller's cancellable context without a deadline.
type hxCancelCtx struct {
	done chan struct{}
	err  error
}

func (c *hxCancelCtx) Deadline() (time.Time, bool) { return time.Time{}, false }
func (c *hxCancelCtx) Done() <-chan struct{}       { return c.done }
func (c *hxCancelCtx) Err() error                  { return c.err }
func (c *hxCancelCtx) Value(key any) any           { return nil }
func (c *hxCancelCtx) cancel() {
	if c.err == nil {
		c.err = hxCtxCanceled
		close(c.done)
	}
}

// C19 with a caller context that is cancelled at a chosen moment of the dial:
// right after the client has read the reply to command number k (also the
// last one). Whatever the call returns, an error means the connection is closed.
func HarnessC19CtxCancel() {
	authMode := svPick("auth", 3) // 0 none, 1 PLAIN-NOENC, 2 LOGIN-NOENC
	caps := []string{"8BITMIME"}
	if authMode > 0 {
		caps = append(caps, "AUTH PLAIN LOGIN")
	}
	s := hxNewSrv(caps)
	s.onlyOK = true
	s.authFn = hxAuthSimple
	opts := []Option{}
	switch authMode {
	case 1:
		opts = append(opts, WithSMTPAuth(SMTPAuthPlainNoEnc), WithUsername("user"), WithPassword("secret"))
	case 2:
		opts = append(opts, WithSMTPAuth(SMTPAuthLoginNoEnc), WithUsername("user"), WithPassword("secret"))
	}
	ctx := &hxCancelCtx{done: make(chan struct{})}
	k := svPick("cancel-after-reply", svParam("maxk", 5)) - 1 // -1: after the greeting
	s.onDrained = func() {
		if len(s.cmds)-1 == k {
			ctx.cancel()
			svReach("cancelled-during-dial")
		}
	}
	c := hxNewClient(s, opts...)
	err := c.DialWithContext(ctx)
	if err != nil {
		svReach("failed")
		svAssert(s.closed, "C19 connection left open by a dial that failed after the caller's context was cancelled (after reply "+string(rune('0'+k+1))+")")
		return
	}
	svReach("succeeded")
}
