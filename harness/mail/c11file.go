package PKGNAME

import (
	"errors"
	"io"
	"io/fs"
	"os"
)

// C11, file output paths.  WriteToFile / WriteToTempFile go through package os;
// in the engine the few os functions they use are replaced (spec "overrides")
// by this in-memory model, natively the real file system is used (a fresh
// temporary directory).  The harness only uses what both provide.

type hxOSFileState struct {
	name   string
	data   []byte
	closed bool
}

var hxOSByName = map[string]*hxOSFileState{}
var hxOSByFile = map[*os.File]*hxOSFileState{}
var hxOSTemps int

func hxOSDirOK(name string) bool {
	// the model knows one directory; anything below ".../missing/" does not exist
	return hxIndexStr(name, "/missing/") < 0
}

func hxOSCreate(name string) (*os.File, error) {
	if !hxOSDirOK(name) {
		return nil, &fs.PathError{Op: "open", Path: name, Err: errors.New("no such file or directory")}
	}
	st := &hxOSFileState{name: name}
	hxOSByName[name] = st
	f := new(os.File)
	hxOSByFile[f] = st
	return f, nil
}

func hxOSCreateTemp(dir, pattern string) (*os.File, error) {
	hxOSTemps++
	return hxOSCreate("/hx-tmp/temp-" + string(rune('0'+hxOSTemps)) + "-" + pattern)
}

func hxOSMkdirTemp(dir, pattern string) (string, error) { return "/hx-tmp", nil }
func hxOSRemoveAll(path string) error                    { return nil }
func hxOSRemove(path string) error                       { return nil }

func hxOSReadFile(name string) ([]byte, error) {
	st := hxOSByName[name]
	if st == nil {
		return nil, &fs.PathError{Op: "open", Path: name, Err: errors.New("no such file or directory")}
	}
	return append([]byte{}, st.data...), nil
}

func hxOSFileWrite(f *os.File, b []byte) (int, error) {
	st := hxOSByFile[f]
	if st == nil || st.closed {
		return 0, os.ErrClosed
	}
	st.data = append(st.data, b...)
	return len(b), nil
}

func hxOSFileWriteString(f *os.File, s string) (int, error) { return hxOSFileWrite(f, []byte(s)) }

func hxOSFileReadFrom(f *os.File, r io.Reader) (int64, error) {
	var total int64
	buf := make([]byte, 512)
	for {
		n, err := r.Read(buf)
		if n > 0 {
			if _, werr := hxOSFileWrite(f, buf[:n]); werr != nil {
				return total, werr
			}
			total += int64(n)
		}
		if err == io.EOF {
			return total, nil
		}
		if err != nil {
			return total, err
		}
	}
}

func hxOSFileClose(f *os.File) error {
	st := hxOSByFile[f]
	if st == nil || st.closed {
		return os.ErrClosed
	}
	st.closed = true
	return nil
}

func hxOSFileName(f *os.File) string {
	if st := hxOSByFile[f]; st != nil {
		return st.name
	}
	return ""
}

var hxFileHistories = []string{"fresh", "after a WriteToFile that could not create its file", "after a successful WriteToFile", "after a WriteTo that failed midway"}

// HarnessC11File: WriteToFile and WriteToTempFile produce the bytes of the
// first render, whatever file renders (failed or not) came before.
func HarnessC11File() {
	p := 1 + svPick("parts", svParam("parts", 2))
	menc := hxEnc(svPick("menc", 3))
	att := svPick("attachment", 2)
	hist := svPick("history", len(hxFileHistories))
	n := svParam("n", 1)
	m := NewMsg(WithEncoding(menc))
	_ = m.From("a@b.c")
	_ = m.To("d@e.f")
	m.Subject("file output")
	body := append(append([]byte("file body "), svBytes("c", n)...), '\r', '\n')
	if menc == EncodingQP {
		hxAssumeText(body)
	}
	for i := 0; i < p; i++ {
		if i == 0 {
			m.SetBodyString(TypeTextPlain, string(body))
		} else {
			m.AddAlternativeString(hxPartType[i], hxPartText[i])
		}
	}
	if att == 1 {
		_ = m.AttachReader("r.txt", &hxRd{data: []byte(hxFileData[1])})
	}
	dir, err := os.MkdirTemp("", "hxc11")
	if err != nil {
		svAssert(false, "setup-tempdir")
		return
	}
	defer os.RemoveAll(dir)
	w1 := &hxRecW{}
	if _, err := m.WriteTo(w1); err != nil {
		svAssert(false, "C11 first render failed")
		return
	}
	tag := "[" + hxFileHistories[hist] + "] "
	switch hist {
	case 1:
		ferr := m.WriteToFile(dir + "/missing/out.eml")
		svAssert(ferr != nil, tag+"C11 WriteToFile into a missing directory reported success")
	case 2:
		ferr := m.WriteToFile(dir + "/earlier.eml")
		svAssert(ferr == nil, tag+"C11 WriteToFile failed")
	case 3:
		fw := &hxFailW{k: len(w1.buf) / 2}
		_, ferr := m.WriteTo(fw)
		svAssert(ferr != nil, tag+"C11 failed render reported success")
	}
	if err := m.WriteToFile(dir + "/out.eml"); err != nil {
		svAssert(false, tag+"C11 WriteToFile failed")
		return
	}
	got, rerr := os.ReadFile(dir + "/out.eml")
	svAssert(rerr == nil, tag+"C11 file written by WriteToFile cannot be read")
	svReach("file-written")
	svAssert(len(got) == len(w1.buf), tag+"C11 WriteToFile: file length differs from the first render")
	if len(got) == len(w1.buf) {
		svAssert(hxEqBytes(got, w1.buf), tag+"C11 WriteToFile: file content differs from the first render")
	}
	tname, terr := m.WriteToTempFile()
	if terr != nil {
		svAssert(false, tag+"C11 WriteToTempFile failed")
		return
	}
	defer os.Remove(tname)
	tgot, trerr := os.ReadFile(tname)
	svAssert(trerr == nil, tag+"C11 file written by WriteToTempFile cannot be read")
	svReach("tempfile-written")
	svAssert(len(tgot) == len(w1.buf), tag+"C11 WriteToTempFile: file length differs from the first render")
	if len(tgot) == len(w1.buf) {
		svAssert(hxEqBytes(tgot, w1.buf), tag+"C11 WriteToTempFile: file content differs from the first render")
	}
	_ = errors.New
}
