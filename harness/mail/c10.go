package PKGNAME

import (
	"bytes"
)

// C10: render -> parse -> render preserves the message.

var hxC10Shapes = []string{"plain", "html", "plain+html", "plain+attachment", "plain+embed", "alternative+attachment", "alternative+embed", "plain+embed+attachment", "alternative+embed+attachment"}

type hxFileSpec struct {
	name string
	data []byte
	kind int // 1 embed, 2 attachment
}

func hxFileBytes(f *File) ([]byte, bool) {
	var b bytes.Buffer
	if _, err := f.Writer(&b); err != nil {
		return nil, false
	}
	return b.Bytes(), true
}

var hxSingletons = []string{"content-type", "content-transfer-encoding", "mime-version", "subject", "from", "to", "cc", "date", "message-id"}

func HarnessC10RoundTrip() {
	shape := svPick("shape", svParam("shapes", len(hxC10Shapes)))
	menc := hxEnc(svPick("menc", svParam("mencs", 3)))
	field := svPick("symbolic-field", 3) // 0 body, 1 subject, 2 file name
	n := svParam("n", 1)
	sym := svBytes("x", n)
	body := []byte("round trip body\r\n")
	subject := []byte("round trip subject")
	fname := []byte("file.txt")
	hasFile := shape >= 3
	switch field {
	case 0:
		body = append(append([]byte("body "), sym...), '\r', '\n')
		if menc == EncodingQP || true {
			hxAssumeText(body)
		}
		for _, c := range sym {
			// text bodies: printable, blank, CR/LF or non-ASCII (valid text is the parser's feature set)
			svAssume(c >= 0x20 || c == '\r' || c == '\n' || c == '\t')
			svAssume(c != 0x7f)
			if menc == EncodingUSASCII {
				svAssume(c < 0x80) // 7bit is for 7-bit content
			}
		}
	case 1:
		subject = append(append([]byte("subj "), sym...), 'z')
		for _, c := range sym {
			svAssume(c >= 0x20)
			svAssume(c != 0x7f)
		}
	default:
		if !hasFile {
			return
		}
		fname = append(append([]byte("f"), sym...), ".txt"...)
		for _, c := range sym {
			svAssume(c >= 0x20)
			svAssume(c <= 0x7e)
			svAssume(c != '"')
			svAssume(c != '\\')
			svAssume(c != '/')
			svAssume(c != ':')
			svAssume(c != '<')
			svAssume(c != '>')
			svAssume(c != '?')
			svAssume(c != '|')
		}
	}
	// what the process did before is irrelevant for the round trip: optionally
	// another message was rendered into a destination that failed part-way
	if svParam("prior", 0) == 1 && svPick("aborted-render-of-another-message-before", 2) == 1 {
		o := NewMsg(WithEncoding(menc))
		_ = o.From("x@y.example")
		_ = o.To("z@y.example")
		o.Subject("another message")
		o.SetBodyString(TypeTextPlain, "the body of a message whose transfer broke off: PREVIOUS PREVIOUS PREVIOUS PREVIOUS PREVIOUS\r\n")
		ow := &hxRecW{}
		_, _ = o.WriteTo(ow)
		k := svInt("k")
		svAssume(k >= 0)
		svAssume(k < len(ow.buf))
		_, oerr := o.WriteTo(&hxFailW{k: k})
		svAssert(oerr != nil, "failed-render-without-error")
		svReach("aborted-render-before")
	}
	m := NewMsg(WithEncoding(menc))
	_ = m.FromFormat("Al Ice", "a@b.example")
	// display names: none / with a comma (quoted-string) / non-ASCII with a comma
	names := 0
	if shape == 0 {
		names = svPick("recipient-names", 3) // (recipient headers do not depend on the body shape)
	}
	toName, ccName := "", ""
	switch names {
	case 0:
		_ = m.To("d@e.example")
		_ = m.Cc("c@e.example")
	case 1:
		toName, ccName = "Doe, Jane", "Roe, Richard Q."
	default:
		toName, ccName = "M\u00fcller, J\u00f6rg", "plain name"
	}
	if names > 0 {
		_ = m.AddToFormat(toName, "d@e.example")
		_ = m.AddCcFormat(ccName, "c@e.example")
	}
	m.Subject(string(subject))
	m.SetDateWithValue(hxFixedTime)
	m.SetMessageIDWithValue("c10@b.example")
	var wantParts []hxLeafSpec
	addPart := func(ct ContentType, content []byte) {
		if len(wantParts) == 0 {
			m.SetBodyString(ct, string(content))
		} else {
			m.AddAlternativeString(ct, string(content))
		}
		wantParts = append(wantParts, hxLeafSpec{kind: 0, mtype: string(ct), content: content})
	}
	html := []byte("<p>html part</p>\r\n")
	var files []hxFileSpec
	fileData := []byte("file content \x00\x01\xfe")
	switch shape {
	case 0:
		addPart(TypeTextPlain, body)
	case 1:
		addPart(TypeTextHTML, body)
	case 2:
		addPart(TypeTextPlain, body)
		addPart(TypeTextHTML, html)
	case 3:
		addPart(TypeTextPlain, body)
		_ = m.AttachReader(string(fname), &hxRd{data: fileData})
		files = append(files, hxFileSpec{string(fname), fileData, 2})
	case 4:
		addPart(TypeTextPlain, body)
		_ = m.EmbedReader(string(fname), &hxRd{data: fileData})
		files = append(files, hxFileSpec{string(fname), fileData, 1})
	case 5:
		addPart(TypeTextPlain, body)
		addPart(TypeTextHTML, html)
		_ = m.AttachReader(string(fname), &hxRd{data: fileData})
		files = append(files, hxFileSpec{string(fname), fileData, 2})
	case 6:
		addPart(TypeTextPlain, body)
		addPart(TypeTextHTML, html)
		_ = m.EmbedReader(string(fname), &hxRd{data: fileData})
		files = append(files, hxFileSpec{string(fname), fileData, 1})
	default:
		addPart(TypeTextPlain, body)
		if shape == 8 {
			addPart(TypeTextHTML, html)
		}
		_ = m.EmbedReader("logo.png", &hxRd{data: []byte("embedded \x89PNG bytes")})
		files = append(files, hxFileSpec{"logo.png", []byte("embedded \x89PNG bytes"), 1})
		_ = m.AttachReader(string(fname), &hxRd{data: fileData})
		files = append(files, hxFileSpec{string(fname), fileData, 2})
	}
	tag := "[" + hxC10Shapes[shape] + "] "
	w1 := &hxRecW{}
	if _, err := m.WriteTo(w1); err != nil {
		svAssert(false, tag+"C10 first render failed")
		return
	}
	p, err := EMLToMsgFromReader(&hxRd{data: w1.buf})
	if err != nil {
		svAssert(false, tag+"C10 the parser rejects go-mail's own rendering")
		return
	}
	svReach("parsed")
	// --- getters of the parsed message
	sv := p.GetGenHeader(HeaderSubject)
	svAssert(len(sv) == 1, tag+"C10 subject count")
	if len(sv) == 1 {
		dec, ok := hxDecodeWords([]byte(sv[0]))
		svAssert(ok && hxEqBytes(hxNormWS(dec), hxNormWS(subject)), tag+"C10 subject differs after the round trip")
	}
	fr := p.GetFrom()
	svAssert(len(fr) == 1 && fr[0].Address == "a@b.example" && fr[0].Name == "Al Ice", tag+"C10 From differs after the round trip")
	to := p.GetTo()
	svAssert(len(to) == 1 && to[0].Address == "d@e.example", tag+"C10 To differs after the round trip")
	cc := p.GetCc()
	svAssert(len(cc) == 1 && cc[0].Address == "c@e.example", tag+"C10 Cc differs after the round trip")
	if len(cc) == 1 {
		svAssert(cc[0].Name == ccName, tag+"C10 Cc display name differs after the round trip")
	}
	dv := p.GetGenHeader(HeaderDate)
	svAssert(len(dv) == 1 && dv[0] == m.GetGenHeader(HeaderDate)[0], tag+"C10 Date differs after the round trip")
	parts := p.GetParts()
	svAssert(len(parts) == len(wantParts), tag+"C10 number of body parts differs after the round trip")
	if len(parts) == len(wantParts) {
		for i, pt := range parts {
			svAssert(string(pt.GetContentType()) == wantParts[i].mtype, tag+"C10 part content type differs")
			cs := hxLower([]byte(pt.GetCharset().String()))
			svAssert(cs == "utf-8", tag+"C10 part charset differs")
			c, cerr := pt.GetContent()
			svAssert(cerr == nil, tag+"C10 part content unreadable")
			want := wantParts[i].content
			if menc == EncodingQP {
				want = hxCanonText(want)
			}
			svAssert(hxEqBytes(c, want), tag+"C10 part content differs after the round trip")
		}
	}
	gotFiles := 0
	for _, f := range p.GetAttachments() {
		gotFiles++
		ok := false
		for _, wf := range files {
			if wf.kind == 2 && f.Name == wf.name {
				d, rok := hxFileBytes(f)
				ok = rok && hxEqBytes(d, wf.data)
			}
		}
		svAssert(ok, tag+"C10 attachment name or bytes differ after the round trip")
	}
	for _, f := range p.GetEmbeds() {
		gotFiles++
		ok := false
		for _, wf := range files {
			if wf.kind == 1 && f.Name == wf.name {
				d, rok := hxFileBytes(f)
				ok = rok && hxEqBytes(d, wf.data)
			}
		}
		svAssert(ok, tag+"C10 embed name or bytes differ after the round trip")
	}
	svAssert(gotFiles == len(files), tag+"C10 number of files differs after the round trip")
	// --- second render of the parsed message
	w2 := &hxRecW{}
	if _, err := p.WriteTo(w2); err != nil {
		svAssert(false, tag+"C10 re-render failed")
		return
	}
	root := hxParseEntity(w2.buf, 0)
	svAssert(root.bad == "", tag+"C10 re-rendered message malformed:"+root.bad)
	if root.bad != "" {
		return
	}
	for _, e := range hxAllEntities(root, nil) {
		for _, sn := range hxSingletons {
			_, k := hxGet(e.hdrs, sn)
			svAssert(k <= 1, tag+"C10 re-rendered message has a duplicated "+sn+" field")
		}
	}
	leaves := hxLeaves(root, nil)
	svAssert(len(leaves) == len(wantParts)+len(files), tag+"C10 re-rendered message has a different number of leaves")
	if len(leaves) != len(wantParts)+len(files) {
		return
	}
	for i, wp := range wantParts {
		svAssert(leaves[i].mtype == wp.mtype, tag+"C10 re-rendered part media type differs")
		dec, ok := hxDecodeLeaf(leaves[i])
		want := wp.content
		if leaves[i].cte == "quoted-printable" {
			want = hxCanonText(want)
		}
		svAssert(ok && hxEqBytes(dec, want), tag+"C10 re-rendered part content differs")
	}
	for i, wf := range files {
		l := leaves[len(wantParts)+i]
		dec, ok := hxDecodeLeaf(l)
		svAssert(ok && hxEqBytes(dec, wf.data), tag+"C10 re-rendered file content differs")
		fn, _ := hxParam(l.dparams, "filename")
		dfn, _ := hxDecodeWords(fn)
		svAssert(string(dfn) == wf.name, tag+"C10 re-rendered file name differs")
	}
	svReach("re-rendered")
}
