package PKGNAME

import (
	"context"
	"net"
)

// hxAuthSimple is a server-side handler for AUTH PLAIN (one step) and
// AUTH LOGIN (two challenges); every reply is picked like any other reply.
func hxAuthSimple(s *hxSrv, line string) {
	c := s.cmds[len(s.cmds)-1]
	if !s.inAuth {
		c.verb = "AUTH"
		if len(line) >= 10 && line[:10] == "AUTH PLAIN" {
			code, drop := s.pick(c, "235")
			if drop {
				s.dropped = true
				return
			}
			s.send(c, code, code[0] == '2', nil)
			return
		}
		if len(line) >= 10 && line[:10] == "AUTH LOGIN" {
			code, drop := s.pick(c, "334")
			if drop {
				s.dropped = true
				return
			}
			if code[0] == '3' {
				s.inAuth = true
				s.authStep = 1
				c.code = code
				s.out = append(s.out, "334 VXNlcm5hbWU6\r\n"...)
				return
			}
			s.send(c, code, false, nil)
			return
		}
		s.send(c, [3]byte{'5', '0', '4'}, false, nil)
		return
	}
	// continuation lines of AUTH LOGIN
	c.verb = "AUTH-CONT"
	if line == "*" {
		s.inAuth = false
		s.send(c, [3]byte{'5', '0', '1'}, false, nil)
		return
	}
	if s.authStep == 1 {
		code, drop := s.pick(c, "334")
		if drop {
			s.dropped = true
			return
		}
		if code[0] == '3' {
			s.authStep = 2
			c.code = code
			s.out = append(s.out, "334 UGFzc3dvcmQ6\r\n"...)
			return
		}
		s.inAuth = false
		s.send(c, code, false, nil)
		return
	}
	code, drop := s.pick(c, "235")
	s.inAuth = false
	if drop {
		s.dropped = true
		return
	}
	s.send(c, code, code[0] == '2', nil)
}

// hxLastStep names the dialogue step at which a dial / send failed.
func hxLastStep(s *hxSrv) string {
	if len(s.cmds) == 0 {
		return "greeting"
	}
	last := s.cmds[len(s.cmds)-1]
	switch last.verb {
	case "EHLO", "HELO":
		return "EHLO/HELO"
	case "AUTH", "AUTH-CONT", "*":
		return "AUTH"
	case "QUIT":
		// a QUIT is usually the client's reaction to an earlier failure
		if len(s.cmds) >= 2 {
			p := s.cmds[len(s.cmds)-2]
			if p.verb == "AUTH" || p.verb == "AUTH-CONT" || p.verb == "*" {
				return "AUTH (QUIT attempted)"
			}
		}
		return "QUIT"
	case "MAIL", "RCPT", "DATA", "EOD", "RSET", "NOOP":
		return "send (" + last.verb + ")"
	}
	return last.verb
}

// C19: no connection outlives a failed operation.
func HarnessC19Close() {
	entry := svPick("entry", 2) // 0 DialWithContext, 1 DialAndSend
	authMode := svPick("auth", svParam("auths", 3)) // 0 none, 1 PLAIN-NOENC, 2 LOGIN-NOENC
	tlsMode := svPick("tls", svParam("tlsmodes", 3)) // 0 NoTLS, 1 mandatory (STARTTLS not offered), 2 opportunistic (not offered)
	caps := []string{"8BITMIME"}
	if authMode > 0 {
		caps = append(caps, "AUTH PLAIN LOGIN")
	}
	s := hxNewSrv(caps)
	s.maxDev = svParam("maxdev", 1)
	s.symDigits = true // any 4yz / 5yz code: clients special-case codes such as 421
	s.authFn = hxAuthSimple
	// the greeting is a reply like any other
	g := svPick("greeting", 4)
	switch g {
	case 1:
		s.out = []byte("421 hx.example busy\r\n")
		s.devs++
	case 2:
		s.out = []byte("554 hx.example no service\r\n")
		s.devs++
	case 3:
		s.out = nil
		s.dropped = true
		s.devs++
	}
	opts := []Option{}
	switch authMode {
	case 1:
		opts = append(opts, WithSMTPAuth(SMTPAuthPlainNoEnc), WithUsername("user"), WithPassword("secret"))
	case 2:
		opts = append(opts, WithSMTPAuth(SMTPAuthLoginNoEnc), WithUsername("user"), WithPassword("secret"))
	}
	switch tlsMode {
	case 1:
		opts = append(opts, WithTLSPolicy(TLSMandatory))
	case 2:
		opts = append(opts, WithTLSPolicy(TLSOpportunistic))
	}
	c := hxNewClient(s, opts...)
	var err error
	if entry == 0 {
		err = c.DialWithContext(context.Background())
	} else {
		err = c.DialAndSend(hxTestMsg(0, 1, 0, EncodingQP))
	}
	if err != nil {
		svReach("failed")
		step := hxLastStep(s)
		if tlsMode == 1 && len(s.cmds) > 0 && s.cmds[len(s.cmds)-1].code[0] == '2' && (step == "EHLO/HELO") {
			step = "STARTTLS (not offered)"
		}
		svAssert(s.closed, "C19 connection left open after failure at "+step)
		return
	}
	svReach("succeeded")
	if entry == 1 {
		svAssert(s.quitSeen, "C19 successful DialAndSend without QUIT")
		svAssert(s.closed, "C19 successful DialAndSend left the connection open")
	}
}

// Sequences of dials on one Client: every transport connection opened by a
// call that returns an error is closed when the call returns, also when the
// Client already holds a connection.
func HarnessC19Redial() {
	closeBetween := svPick("close-between", 2) == 1
	second := svPick("second-call", 2) // 0 DialWithContext, 1 DialAndSend
	s1 := hxNewSrv([]string{"8BITMIME"})
	s1.onlyOK = true
	s2 := hxNewSrv([]string{"8BITMIME"})
	s2.maxDev = svParam("maxdev", 1)
	s2.symDigits = true
	dials := 0
	c, err := NewClient("mail.example", WithTLSPolicy(NoTLS), WithHELO("client.example"),
		WithDialContextFunc(func(ctx context.Context, network, address string) (net.Conn, error) {
			dials++
			if dials == 1 {
				return &hxConn{s: s1}, nil
			}
			return &hxConn{s: s2}, nil
		}))
	if err != nil {
		svAssert(false, "setup-newclient")
		return
	}
	if err := c.DialWithContext(context.Background()); err != nil {
		svAssert(false, "setup-first-dial")
		return
	}
	if closeBetween {
		_ = c.Close()
	}
	var err2 error
	if second == 0 {
		err2 = c.DialWithContext(context.Background())
	} else {
		err2 = c.DialAndSend(hxTestMsg(0, 1, 0, EncodingQP))
	}
	if dials < 2 {
		svReach("second-call-did-not-dial")
		return
	}
	svReach("second-connection-opened")
	if err2 != nil {
		svReach("second-call-failed")
		svAssert(s2.closed, "C19 connection opened by a failing second call left open (after "+hxLastStep(s2)+")")
	} else if second == 1 {
		svAssert(s2.quitSeen && s2.closed, "C19 successful DialAndSend left its connection open")
	}
}
