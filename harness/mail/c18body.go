package PKGNAME

import "io"

// hxCheckBodyLines: every line <= 76 chars and CRLF terminated, no bare CR/LF,
// optionally no empty line.
func hxCheckBodyLines(out []byte, noEmpty bool) int {
	start := 0
	lines := 0
	i := 0
	for i < len(out) {
		c := out[i]
		if c == '\n' {
			svAssert(false, "bare-LF")
			return -1
		}
		if c == '\r' {
			if i+1 >= len(out) || out[i+1] != '\n' {
				svAssert(false, "bare-CR")
				return -1
			}
			svAssert(i-start <= 76, "line-too-long")
			if noEmpty {
				svAssert(i-start > 0, "empty-line")
			}
			lines++
			i += 2
			start = i
			continue
		}
		i++
	}
	if start != len(out) {
		// a final unterminated fragment must still respect the limit
		svAssert(len(out)-start <= 76, "line-too-long")
		svReach("unterminated-tail")
	}
	return lines
}

// chunked producer: writes data in up to three chunks with symbolic cut points
func hxChunked(data []byte, c1, c2 int) func(io.Writer) (int64, error) {
	return func(w io.Writer) (int64, error) {
		var tot int64
		for _, ch := range [][]byte{data[:c1], data[c1:c2], data[c2:]} {
			if len(ch) == 0 {
				continue
			}
			n, err := w.Write(ch)
			tot += int64(n)
			if err != nil {
				return tot, err
			}
		}
		return tot, nil
	}
}

var hxB64Lens = []int{0, 1, 2, 3, 56, 57, 58, 59, 60, 113, 114, 115, 116, 171, 172}

func HarnessC18B64Body() {
	t := hxB64Lens[svPick("t", svParam("lens", 10))]
	c1 := svInt("c1")
	c2 := svInt("c2")
	svAssume(c1 >= 0)
	svAssume(c1 <= c2)
	svAssume(c2 <= t)
	if svParam("chunks", 2) < 3 {
		svAssume(c2 == t)
	}
	data := make([]byte, t)
	for i := range data {
		data[i] = byte(i*7 + 3)
	}
	w := &hxRecW{}
	mw := &msgWriter{writer: w}
	mw.writeBody(hxChunked(data, c1, c2), EncodingB64)
	svAssert(mw.err == nil, "error")
	svAssert(int(mw.bytesWritten) == len(w.buf), "count")
	enc := (t + 2) / 3 * 4
	lines := hxCheckBodyLines(w.buf, true)
	if lines < 0 {
		return
	}
	// expected: ceil(enc/76) lines, all but the last exactly 76 chars
	want := (enc + 75) / 76
	svAssert(lines == want, "line-count")
	svAssert(len(w.buf) == enc+2*want, "length")
	if lines > 1 {
		svReach("wrapped")
	}
}

// QP body: printable filler with symbolic bytes around the 76-column limit,
// written in two chunks with a symbolic cut point.
func HarnessC18QPBody() {
	flen := svParam("fill", 70)
	ns := svParam("nsym", 3)
	tail := svParam("tail", 6)
	var data []byte
	for i := 0; i < flen; i++ {
		data = append(data, 'a')
	}
	data = append(data, svBytes("s", ns)...)
	for i := 0; i < tail; i++ {
		data = append(data, 'b')
	}
	c1 := svInt("c1")
	svAssume(c1 >= flen-2)
	svAssume(c1 <= len(data))
	w := &hxRecW{}
	mw := &msgWriter{writer: w}
	mw.writeBody(hxChunked(data, c1, len(data)), EncodingQP)
	svAssert(mw.err == nil, "error")
	svAssert(int(mw.bytesWritten) == len(w.buf), "count")
	lines := hxCheckBodyLines(w.buf, false)
	if lines > 1 {
		svReach("wrapped")
	}
}

// QP body, line starts: the first `head` bytes of a line are symbolic printable
// characters (any text a line may begin with), followed by a filler that brings
// the line to every length around the 76-column limit, and a second line that
// begins with the same symbolic bytes (a continuation after a soft break may
// start with them as well).
func HarnessC18QPLineStart() {
	head := svParam("head", 5)
	fill := svParam("lo", 66) + svPick("fill", svParam("fills", 8))
	p := svBytes("p", head)
	for _, b := range p {
		svAssume(b >= 0x20)
		svAssume(b <= 0x7e)
		svAssume(b != '=')
	}
	var data []byte
	data = append(data, p...)
	for i := 0; i < fill; i++ {
		data = append(data, 'a')
	}
	data = append(data, "\r\n"...)
	data = append(data, p...)
	data = append(data, " end\r\n"...)
	w := &hxRecW{}
	mw := &msgWriter{writer: w}
	mw.writeBody(hxChunked(data, len(data), len(data)), EncodingQP)
	svAssert(mw.err == nil, "error")
	svAssert(int(mw.bytesWritten) == len(w.buf), "count")
	lines := hxCheckBodyLines(w.buf, false)
	if lines > 2 {
		svReach("wrapped")
	}
}
