#!/bin/sh
# Runs go-mail's own test suite (guard off; there are no hooks) and compares the
# passing tests with the pinned baseline in /root/.vp/BASELINE.json. The suite
# binds fixed local ports; a run disturbed by another process using them is
# repeated (up to 3 times) on a different port range.
export GOFLAGS=-mod=mod GOPROXY=off GOSUMDB=off GOTOOLCHAIN=local
try=0
while [ $try -lt 3 ]; do
  try=$((try+1))
  if [ $try -gt 1 ]; then export TEST_BASEPORT=$((41000+try*300)) TEST_BASEPORT_SMTP=$((45000+try*300)); fi
  (cd /repo && go test -json -vet=off -count=1 -timeout 25m ./... > /tmp/verif-baseline.json 2>/dev/null)
  python3 - <<'PY'
import json,ast,sys
b=json.load(open('/root/.vp/BASELINE.json'))
sp=b['stable_pass']
if isinstance(sp,str): sp=ast.literal_eval(sp)
want=set(sp)
got=set()
for l in open('/tmp/verif-baseline.json'):
    try: e=json.loads(l)
    except Exception: continue
    if e.get('Action')=='pass' and e.get('Test'):
        got.add(e['Package']+'::'+e['Test'])
missing=sorted(want-got)
print('baseline tests: %d, passing now: %d, missing: %d'%(len(want),len(want&got),len(missing)))
for m in missing[:20]: print('  MISSING',m)
sys.exit(1 if missing else 0)
PY
  rc=$?
  rm -f /tmp/verif-baseline.json
  [ $rc -eq 0 ] && exit 0
done
exit $rc
