#!/usr/bin/env python3
# tools/mkmeta.py <seed-name> <checks_run text> [needs-short]
# meta.json of a kept seeded change = the agent's meta + what was confirmed and run
import json,sys,os
n=sys.argv[1]; d='/verif/seeded/'+n
m=json.load(open(d+'/meta.agent.json'))
m['confirmed']='tools/confirm_seed.sh: patch applies to /repo HEAD in a fresh scratch worktree, library builds, all 2086 baseline tests still pass, demonstration test fails with the patch and passes without'
m['checks_run']=sys.argv[2]
if len(sys.argv)>3: m['needs_short']=sys.argv[3]
json.dump(m,open(d+'/meta.json','w'),indent=1,ensure_ascii=False)
