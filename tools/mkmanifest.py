#!/usr/bin/env python3
"""Generates /verif/MANIFEST.json from tools/claims.json (one entry per claimed property)."""
import json, os
root = os.path.dirname(os.path.dirname(os.path.abspath(__file__)))
props = [json.loads(l)['id'] for l in open(os.path.join(root, 'properties.jsonl'))]
claims = json.load(open(os.path.join(root, 'tools', 'claims.json')))
checks = []
na = []
for p in props:
    c = claims.get(p)
    if not c or c.get('not_applicable'):
        na.append({"property_id": p, "reason": (c or {}).get('not_applicable', 'check not built yet (work in progress; see DESIGN.md)')})
        continue
    checks.append({
        "property_id": p,
        "quick_cmd": "/verif/bin/check %s quick" % p,
        "thorough_cmd": "/verif/bin/check %s thorough" % p,
        "evidence_file": "/verif/evidence/%s.json" % p,
        "replay_cmd_template": "/verif/bin/check %s --replay {path}" % p,
        "engine": "symgo",
        "level_claimed": {"category": "model_checking", "text": c['text'], "design_ref": c.get('design_ref', 'DESIGN.md section 3, ' + p)},
        "level_note": c['note'],
        "technique": c.get('technique', 'bounded symbolic execution of go-mail\'s SSA (go/ssa) with SMT (z3, QF_BV) path feasibility and assertion queries; counterexamples replayed natively'),
    })
m = {
    "version": 1,
    "setup_cmd": "cd /verif/symgo && GOFLAGS=-mod=mod GOPROXY=off GOSUMDB=off GOTOOLCHAIN=local go build -o /verif/bin/symgo ./cmd/symgo && /verif/bin/symgo selftest",
    "hooks": {"guard": "verif", "enable": "none needed: harnesses are injected as overlay files (go/packages Overlay, go test -overlay); /repo carries no hook code",
              "baseline_off_cmd": "/verif/bin/baseline.sh", "source_commits": [], "add_only": True},
    "engines": [{"name": "symgo", "path": "/verif/symgo", "serves_properties": [c["property_id"] for c in checks],
                 "kind_free_text": "symbolic interpreter for go/ssa (fork of x/tools go/ssa/interp) + z3 over one pipe per worker; decision-prefix re-execution; native replay of models"}],
    "checks": checks,
    "not_applicable": na,
    "notes": "All checks rebuild the encoding from /repo's working tree on every run. Exit 0 = held within the stated bounds; 1 = VIOLATION reproduced natively; 2 = inconclusive (incomplete exploration, solver unknown, vacuity, or a model that does not reproduce).",
}
json.dump(m, open(os.path.join(root, 'MANIFEST.json'), 'w'), indent=1)
print("claimed:", [c["property_id"] for c in checks])
