#!/bin/sh
# tools/seed_regress.sh [seed-name ...]  (default: all)
# Re-evaluates kept seeded changes against the quick tier of the check of their
# property (scratch worktree, /repo untouched): one line per change.
cd "$(dirname "$0")/.."
names=${@:-$(ls seeded)}
for n in $names; do
  id=$(python3 -c "import json;print(json.load(open('seeded/$n/meta.json'))['property'])")
  case "$n" in C15-auth-object-cached-scram) id=C13;; esac
  out=$(tools/try_seed_wt.sh $PWD/seeded/$n/patch.diff $id quick 2>&1)
  if echo "$out" | grep -q '^VIOLATION'; then v=DETECTED; else v=MISSED; fi
  echo "$v $n ($id) $(echo "$out" | grep -m1 'label=' | cut -c1-140)"
done
