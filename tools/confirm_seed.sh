#!/bin/sh
# tools/confirm_seed.sh <seed-worktree-dir> <name>
# Confirms a seeded change independently in a fresh scratch worktree:
#  - patch applies to /repo HEAD, library builds
#  - go-mail's own suite: no test of the pinned baseline is lost
#  - the demonstration test FAILS with the patch and PASSES without it
# and stores it under /verif/seeded/<name>/ .
set -u
src=$1; name=$2
export GOFLAGS=-mod=mod GOPROXY=off GOSUMDB=off GOTOOLCHAIN=local
wt=/tmp/seedchk-$name
git -C /repo worktree remove --force $wt 2>/dev/null
git -C /repo worktree add -q --detach $wt HEAD || exit 2
cd $wt
demo=$(python3 -c "import json;print(json.load(open('$src/_seed/meta.json'))['demo_test'])")
# where does the demo test live (package dir)?
sub=.
if grep -q '^package smtp' $src/_seed/demo_test.go; then sub=smtp; fi
cp $src/_seed/demo_test.go $wt/$sub/zz_seed_demo_test.go
echo "== demo WITHOUT patch (expect PASS)"
(cd $sub && go test -vet=off -count=1 -run "^${demo}\$" . 2>&1 | tail -3)
git apply $src/_seed/patch.diff || { echo "PATCH DOES NOT APPLY"; exit 2; }
go build ./... || { echo "BUILD FAILS"; exit 2; }
echo "== demo WITH patch (expect FAIL)"
(cd $sub && go test -vet=off -count=1 -run "^${demo}\$" . 2>&1 | tail -6)
rm $wt/$sub/zz_seed_demo_test.go
echo "== suite WITH patch vs baseline"
: > /tmp/seedchk-$name.json
for try in 1 2 3; do
  TEST_BASEPORT=$((${TEST_BASEPORT:-30000}+try*137)) TEST_BASEPORT_SMTP=$((${TEST_BASEPORT_SMTP:-31000}+try*137)) go test -json -vet=off -count=1 -timeout 25m ./... >> /tmp/seedchk-$name.json 2>/dev/null
  python3 - <<PY && break
import json,ast,sys
b=json.load(open('/root/.vp/BASELINE.json')); sp=b['stable_pass']
if isinstance(sp,str): sp=ast.literal_eval(sp)
want=set(sp); got=set()
for l in open('/tmp/seedchk-$name.json'):
    try: e=json.loads(l)
    except Exception: continue
    if e.get('Action')=='pass' and e.get('Test'): got.add(e['Package']+'::'+e['Test'])
miss=sorted(want-got)
print('try $try: baseline %d, passing (union over tries) %d, missing %d'%(len(want),len(want&got),len(miss)))
for m in miss[:10]: print('  MISSING',m)
sys.exit(1 if miss else 0)
PY
done
rm -f /tmp/seedchk-$name.json
mkdir -p /verif/seeded/$name
cp $src/_seed/patch.diff /verif/seeded/$name/patch.diff
cp $src/_seed/demo_test.go /verif/seeded/$name/demo_test.go
cp $src/_seed/meta.json /verif/seeded/$name/meta.agent.json
cd /; git -C /repo worktree remove --force $wt
