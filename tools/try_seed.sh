#!/bin/sh
# tools/try_seed.sh <seeded-name> <ID> [tier]  : applies the seeded patch to /repo, runs the check, undoes the patch
name=$1; id=$2; tier=${3:-quick}
cd /repo && git status --short | grep -q . && { echo "/repo not clean"; exit 2; }
git -C /repo apply /verif/seeded/$name/patch.diff || exit 2
start=$(date +%s)
out=$(/verif/bin/check $id $tier 2>&1); rc=$?
git -C /repo checkout -- .
echo "seed=$name check=$id/$tier rc=$rc $(($(date +%s)-start))s"
echo "$out" | egrep '^(OK|FAIL|INCONCLUSIVE|VIOLATION|KNOWN-FINDING|  run=)' | cut -c1-260
