#!/bin/sh
# thorough tier for the listed properties (default: all), each under a wall-clock cap;
# full output of each check goes to $LOGDIR/thorough-<id>.log as it is produced
cd "$(dirname "$0")/.."
LOGDIR=${LOGDIR:-/tmp}
CAP=${CAP:-5400}
ids=${@:-$(python3 -c "import json;print(' '.join(c['property_id'] for c in json.load(open('MANIFEST.json'))['checks']))")}
for id in $ids; do
  start=$(date +%s)
  timeout $CAP bin/check $id thorough > $LOGDIR/thorough-$id.log 2>&1; rc=$?
  echo "$id rc=$rc $(($(date +%s)-start))s $(egrep '^(OK|FAIL|INCONCLUSIVE|VIOLATION|KNOWN-FINDING|run )' $LOGDIR/thorough-$id.log | cut -c1-230 | tr '\n' '|')"
done
