#!/bin/sh
# thorough tier for the listed properties (default: all), each under a wall-clock cap
cd /verif
ids=${@:-$(python3 -c "import json;print(' '.join(c['property_id'] for c in json.load(open('MANIFEST.json'))['checks']))")}
for id in $ids; do
  start=$(date +%s)
  out=$(timeout 5400 bin/check $id thorough 2>&1); rc=$?
  echo "$id rc=$rc $(($(date +%s)-start))s $(echo "$out" | egrep '^(OK|FAIL|INCONCLUSIVE|VIOLATION|KNOWN-FINDING|run )' | cut -c1-230 | tr '\n' '|')"
done
