#!/bin/sh
# tools/try_seed_wt.sh <patch.diff> <ID> [tier] [extra check args]
# Development aid: evaluates a patch in a scratch worktree (not /repo), so that
# it can run while other checks use /repo.  Evidence and replays of such a run
# go to replays/_scratch/, never to evidence/.
patch=$1; id=$2; tier=${3:-quick}; shift 3 2>/dev/null
wt=/tmp/swt-$id-$$
git -C /repo worktree add -q --detach $wt HEAD || exit 2
git -C $wt apply $patch || { git -C /repo worktree remove --force $wt; exit 2; }
start=$(date +%s)
out=$(SYMGO_REPO=$wt /verif/bin/check $id $tier "$@" 2>&1); rc=$?
git -C /repo worktree remove --force $wt
rm -rf /verif/replays/_scratch/$(basename $wt)
echo "patch=$patch check=$id/$tier rc=$rc $(($(date +%s)-start))s"
echo "$out" | egrep '^(OK|FAIL|INCONCLUSIVE|VIOLATION|KNOWN-FINDING|  run=)' | cut -c1-260
