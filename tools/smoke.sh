#!/bin/sh
# tools/smoke.sh : every run of every spec loads (harness file sets compile) and explores at least one path
cd "$(dirname "$0")/.."
export GOFLAGS=-mod=mod GOPROXY=off GOSUMDB=off GOTOOLCHAIN=local
python3 - <<'PY'
import json,glob,subprocess
bad=0
for p in sorted(glob.glob('specs/C*.json')):
    sp=json.load(open(p))
    union={}
    for r in sp['runs']:
        u=union.setdefault(r.get('pkg') or '.',[])
        for f in r['files']:
            if f not in u: u.append(f)
    for r in sp['runs']:
        # (the check loads the union of the harness files of all runs of a package)
        cmd=['bin/symgo','explore','-dir','/repo','-pkg',r.get('pkg') or '.','-files',','.join(union[r.get('pkg') or '.']),'-fn',r['fn'],'-maxpaths','2','-workers','1']
        out=subprocess.run(cmd,capture_output=True,text=True,timeout=300)
        ok=out.returncode in (0,1,2) and 'load:' not in (out.stdout+out.stderr) and 'failed to start' not in (out.stdout+out.stderr)
        print(('ok  ' if ok else 'FAIL'), sp['property'], r['name'])
        if not ok:
            bad+=1; print((out.stdout+out.stderr)[-600:])
print('failures:',bad)
PY
