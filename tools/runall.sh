#!/bin/sh
# runs every claimed check of the given tier on the current tree, one after the other
tier=${1:-quick}
cd /verif
for id in $(python3 -c "import json;print(' '.join(c['property_id'] for c in json.load(open('MANIFEST.json'))['checks']))"); do
  start=$(date +%s)
  out=$(bin/check $id $tier 2>&1); rc=$?
  echo "$id rc=$rc $(($(date +%s)-start))s $(echo "$out" | egrep '^(OK|FAIL|INCONCLUSIVE|VIOLATION|KNOWN-FINDING)' | cut -c1-160 | tr '\n' '|')"
done
