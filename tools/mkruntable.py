#!/usr/bin/env python3
# tools/mkruntable.py: regenerates DESIGN.md section 3.1 (all runs as registered) from specs/*.json
import json,glob,re
rows=[]
for f in sorted(glob.glob('/verif/specs/C*.json')):
    s=json.load(open(f))
    for r in s['runs']:
        fmt=lambda d:'{'+', '.join('%s: %s'%(k,v) for k,v in d.items())+'}'
        b=r.get('bound','').replace('|','/').replace('\n',' ')
        if len(b)>420: b=b[:417]+'...'
        rows.append('| %s | `%s` | `%s` | %s | %s | %s |'%(s['property'],r['name'],r['fn'],fmt(r.get('quick',{})),fmt(r.get('thorough',{})),b))
tbl='| property | run | harness entry | quick | thorough | bound |\n|---|---|---|---|---|---|\n'+'\n'.join(rows)+'\n'
p='/verif/DESIGN.md'
t=open(p).read()
a=t.index('### 3.1 All runs as registered')
a=t.index('\n',a)+1
b=t.index('### 3.2')
t=t[:a]+'\n'+tbl+'\n'+t[b:]
open(p,'w').write(t)
print(len(rows),'runs')
